"""Orchestration of the engines behind ./check: builds from /repo's current tree, runs, writes evidence."""
import hashlib
import json
import os
import subprocess
import sys
import time

VERIF = os.path.dirname(os.path.dirname(os.path.abspath(__file__)))
TARGET = os.path.join(VERIF, "target")
WORK = os.path.join(VERIF, "work")
EVID = os.environ.get("VERIF_EVIDENCE_DIR") or os.path.join(VERIF, "evidence")  # the override is for side-by-side thorough sweeps only
REPLAY = os.path.join(VERIF, "replay")
SYMEX_BIN = os.path.join(TARGET, "symex", "release", "symex")

ENV = dict(os.environ)
ENV["CARGO_NET_OFFLINE"] = "true"
ENV.setdefault("CARGO_TERM_COLOR", "never")

# kinds of engine-S findings that are deterministic facts about a concrete path (no model needed)
PATH_LEVEL = {"rejected", "panic", "varnames", "poison", "listing", "acceptance", "accepted-malformed",
              "unparse", "clone-count", "arity", "derivative-error", "missing-error", "bookkeeping", "consuming", "reparse"}


def log(msg):
    print(msg, flush=True)


def build_symex():
    os.makedirs(TARGET, exist_ok=True)
    env = dict(ENV)
    env["CARGO_TARGET_DIR"] = os.path.join(TARGET, "symex")
    t0 = time.time()
    p = subprocess.run(["cargo", "build", "--release", "--offline"], cwd=os.path.join(VERIF, "symex"), env=env,
                       stdout=subprocess.PIPE, stderr=subprocess.STDOUT, text=True)
    if p.returncode != 0:
        log("BUILD-FAILED engine=S (symex against /repo's working tree)")
        log(p.stdout[-4000:])
        return False, time.time() - t0
    return True, time.time() - t0


def run_symex(cmd, tier, seed, extra=None):
    os.makedirs(WORK, exist_ok=True)
    out = os.path.join(WORK, f"{cmd}.{tier}.symex.json")
    if os.path.exists(out):
        os.remove(out)
    args = [SYMEX_BIN, cmd, "--tier", tier, "--seed", str(seed), "--out", out] + (extra or [])
    t0 = time.time()
    p = subprocess.run(args, stdout=subprocess.PIPE, stderr=subprocess.STDOUT, text=True, env=ENV)
    wall = time.time() - t0
    if p.returncode != 0 or not os.path.exists(out):
        return {"engine": "S", "error": f"symex {cmd} exited {p.returncode}: {p.stdout[-2000:]}", "wall_s": wall}
    d = json.load(open(out))
    d["engine"] = "S"
    d["cmd"] = cmd
    d["wall_total_s"] = wall
    return d


# ------------------------------------------------------------------------------------------------
# property table
# ------------------------------------------------------------------------------------------------

def S(cmd):
    return ("S", cmd)


def K(*harness_groups):
    return ("K", list(harness_groups))


def M(what):
    return ("M", what)


PROPS = {
    "C01": [S("C01"), K("c01")],
    "C02": [S("C02")],
    "C03": [S("C03")],
    "C04": [S("C04")],
    "C05": [S("C05")],
    "C06": [S("C06"), K("c06")],
    "C07": [S("C07")],
    "C08": [S("C08")],
    "C09": [S("C09"), K("c09")],
    "C10": [S("C10")],
    "C11": [S("C11")],
    "C12": [S("C12")],
    "C13": [S("C13"), K("c13")],
    "C14": [S("C14"), K("c14")],
    "C15": [S("C15"), K("c15")],
    "C16": [S("C16"), K("c16")],
    "C17": [S("C17"), K("c17")],
    "C18": [S("C18"), K("c18")],
    "C19": [M("C19"), S("C19"), K("c19")],
}
# K steps can be switched off for experiments (VERIF_SKIP_K=1); registered commands never set it
if os.environ.get("VERIF_SKIP_K") == "1":
    PROPS = {k: [s for s in v if s[0] != "K"] for k, v in PROPS.items()}
# ... and everything but K (VERIF_ONLY_K=1), to run the two lanes of a thorough sweep side by side
if os.environ.get("VERIF_ONLY_K") == "1":
    PROPS = {k: [s for s in v if s[0] == "K"] for k, v in PROPS.items()}


def known_findings():
    path = os.path.join(VERIF, "known_findings.json")
    if not os.path.exists(path):
        return {"known": [], "fixed": []}
    return json.load(open(path))


def finding_signature(f):
    """Role-based key of a finding: which property-relevant input fails, not the incidental model."""
    return "|".join(str(f.get(k, "")) for k in ("engine", "kind", "pipeline", "table_label", "text", "harness", "check"))


def write_replay(pid, engine, finding, extra=None):
    os.makedirs(REPLAY, exist_ok=True)
    body = {"property": pid, "engine": engine, "finding": finding}
    if extra:
        body.update(extra)
    h = hashlib.sha1(json.dumps(body, sort_keys=True).encode()).hexdigest()[:12]
    path = os.path.join(REPLAY, f"{pid}-{h}.json")
    json.dump(body, open(path, "w"), indent=1)
    return path


def run_property(pid, tier, seed):
    if pid not in PROPS:
        log(f"unknown property {pid}")
        return 64
    t0 = time.time()
    steps = PROPS[pid]
    results = []
    need_s = any(e == "S" for e, _ in steps)
    if need_s:
        ok, bt = build_symex()
        if not ok:
            write_evidence(pid, tier, seed, [], [], [], time.time() - t0, note="build of engine S failed", inconclusive=1)
            return 2
    for eng, arg in steps:
        if eng == "S":
            results.append(run_symex(arg, tier, seed))
        elif eng == "K":
            import kani_engine
            results.append(kani_engine.run(pid, arg, tier, seed))
        elif eng == "M":
            import mir_engine
            results.append(mir_engine.run(pid, tier, seed))
    # classify
    kf = known_findings()
    known = [k for k in kf.get("known", []) if k.get("property") == pid]
    violations, inconclusive, suspects, known_hits = [], [], [], []
    for r in results:
        if "error" in r:
            inconclusive.append({"engine": r.get("engine"), "error": r["error"]})
            continue
        for f in r.get("findings", []):
            f = dict(f)
            f["engine"] = r["engine"]
            kind = f.get("kind")
            if kind == "inconclusive":
                inconclusive.append(f)
            elif kind == "value" and f.get("confirmed") is False:
                suspects.append(f)
            else:
                k = match_known(f, known)
                if k is not None:
                    known_hits.append((k, f))
                else:
                    violations.append(f)
        if r.get("stats", {}).get("inconclusive", 0) > 0 and r["engine"] == "S":
            # solver timeouts inside batches that were later resolved individually are fine; unresolved ones are findings
            pass
        for inc in r.get("inconclusive_items", []):
            inconclusive.append(inc)
    wall = time.time() - t0
    # report
    for k in known:
        hits = [f for kk, f in known_hits if kk is k]
        if hits:
            log(f"KNOWN-FINDING: property={pid} {k.get('what')}")
        else:
            log(f"NOTE: listed known finding no longer observed (stale entry?): property={pid} {k.get('what')}")
    paths = []
    seen = set()
    for f in violations:
        sig = finding_signature(f)
        if sig in seen:
            continue
        seen.add(sig)
        if len(paths) >= 10:
            continue
        extra = {}
        path = write_replay(pid, f["engine"], f, extra)
        paths.append(path)
        log(f"VIOLATION property={pid} replay={path}")
        log(f"  {f.get('kind')} via {f.get('pipeline', f.get('harness', ''))}: {str(f.get('text', ''))[:120]} :: {str(f.get('detail', ''))[:200]}")
        if f.get("impl") or f.get("ref"):
            log(f"  impl={str(f.get('impl'))[:160]} ref={str(f.get('ref'))[:160]}")
    for f in suspects[:5]:
        log(f"SUSPECT (solver model did not reproduce natively; encoding suspect, not reported as violation): {f.get('text')} {f.get('detail')}")
    for f in inconclusive[:8]:
        log(f"INCONCLUSIVE: {json.dumps(f)[:300]}")
    write_evidence(pid, tier, seed, results, violations, inconclusive + suspects, wall, known_hits=known_hits)
    summarize(pid, tier, results, wall)
    if violations:
        return 1
    if suspects:
        log(f"RESULT property={pid} tier={tier}: INCONCLUSIVE ({len(suspects)} counterexample(s) that do not reproduce natively: encoding suspect)")
        return 2
    if inconclusive and tier == "thorough" and not any("error" in x for x in inconclusive):
        # thorough tier: obligations the solver could not decide within its cap are listed in the evidence as NOT covered;
        # they are never counted as discharged, and they do not turn an otherwise clean exploration into a failure
        log(f"NOT-COVERED property={pid}: {len(inconclusive)} obligation(s) inconclusive within the cap (listed in the evidence, not counted as passed)")
        log(f"RESULT property={pid} tier={tier}: held on everything that could be decided ({wall:.1f}s)")
        return 0
    if inconclusive:
        log(f"RESULT property={pid} tier={tier}: INCONCLUSIVE ({len(inconclusive)} inconclusive)")
        return 2
    log(f"RESULT property={pid} tier={tier}: held on everything explored ({wall:.1f}s)")
    return 0


def match_known(f, known):
    for k in known:
        m = k.get("match", {})
        if all(str(f.get(key, "")) == str(val) or (isinstance(val, dict) and "contains" in val and val["contains"] in str(f.get(key, ""))) for key, val in m.items()):
            return k
    return None


def summarize(pid, tier, results, wall):
    for r in results:
        if "error" in r:
            continue
        st = r.get("stats", {})
        if r["engine"] == "S":
            log(f"[S] {pid}: programs={st.get('programs')} VCs={st.get('vcs')} queries={st.get('queries')} unsat={st.get('unsat')} sat={st.get('sat')} "
                f"inconclusive={st.get('inconclusive')} solver_s={st.get('solver_s')} violations={st.get('violations')} wall={r.get('wall_s', 0):.1f}s")
        else:
            log(f"[{r['engine']}] {pid}: {json.dumps(st)[:400]}")


def write_evidence(pid, tier, seed, results, violations, inconclusive, wall, note=None, inconclusive_n=None, known_hits=None, **kw):
    os.makedirs(EVID, exist_ok=True)
    evaluations = 0
    distinct = 0
    obligations = 0
    discharged = 0
    samples = []
    functions = []
    assumptions = []
    outside = []
    engines_cov = []
    solver_s = 0.0
    q = {"sat": 0, "unsat": 0, "inconclusive": 0}
    rules = []
    for r in results:
        if "error" in r:
            engines_cov.append({"engine": r.get("engine"), "error": r["error"][:500]})
            continue
        st = r.get("stats", {})
        if r["engine"] == "S":
            evaluations += int(st.get("vcs", 0)) + int(st.get("programs", 0) if st.get("vcs", 0) == 0 else 0)
            distinct += int(st.get("distinct_nontrivial_programs", 0))
            obligations += int(st.get("queries", 0))
            discharged += int(st.get("unsat", 0))
            for k in q:
                q[k] += int(st.get(k, 0))
            solver_s += float(st.get("solver_s", 0))
            rules.append("engine S: a case = (operator table, program text, pipeline through the real API at T = Sym); the solver decides impl term = reference term for all variable and literal values, "
                         "batched as one disjunctive query per <=64 programs (calculus checks: one query per path and verification condition, plus the feasibility queries of the decision oracle, where sat means that a branch is feasible); distinct_nontrivial counts distinct (table, text) pairs containing at least one operator application (a lower bound once a worker has seen 2 million of them)")
            meta = r.get("meta", {})
            functions += meta.get("functions", [])
            assumptions += meta.get("assumptions", [])
            outside += meta.get("outside", [])
            engines_cov.append({"engine": "S (proxy symbolic execution of the real generic library + z3 -in)", "cmd": r.get("cmd"), "stats": st,
                                "parts": r.get("parts", {}), "extra": {k: v for k, v in meta.items() if k not in ("functions", "assumptions", "outside")}})
            samples += r.get("samples", [])[:6]
        else:
            evaluations += int(st.get("evaluations", 0))
            distinct += int(st.get("distinct_nontrivial", 0))
            obligations += int(st.get("obligations", 0))
            discharged += int(st.get("discharged", 0))
            solver_s += float(st.get("solver_s", 0))
            for k in q:
                q[k] += int(st.get(k, 0))
            functions += r.get("functions", [])
            assumptions += r.get("assumptions", [])
            outside += r.get("outside", [])
            rules.append(r.get("rule", ""))
            engines_cov.append({k: v for k, v in r.items() if k not in ("findings", "samples")})
            samples += r.get("samples", [])[:6]
    if not samples:
        samples = [{"note": note or "no case was explored"}]
    cov = {
        "evaluations": evaluations,
        "distinct_nontrivial": distinct,
        "rule": " || ".join(x for x in rules if x),
        "samples": samples[:12],
        "obligations": obligations,
        "discharged": discharged,
        "exhaustive": False,
        "functions_encoded": sorted(set(functions)),
        "queries": q,
        "solver_s": round(solver_s, 3),
        "outside_the_claim": sorted(set(outside)),
        "engines": engines_cov,
        "inconclusive_items": [json.loads(json.dumps(x))for x in inconclusive[:20]],
        "violations_found": [{k: v for k, v in f.items() if k in ("engine", "kind", "pipeline", "table_label", "text", "impl", "ref", "detail", "harness", "check", "confirmed")} for f in violations[:20]],
        "known_findings_hit": [k.get("what") for k, _ in (known_hits or [])],
    }
    if note:
        cov["note"] = note
    ev = {
        "property_id": pid,
        "tier": tier,
        "seed": seed,
        "level": "model_checking",
        "coverage": cov,
        "assumptions": sorted(set(assumptions)),
        "wall_s": round(wall, 2),
        "violations": len(violations),
    }
    json.dump(ev, open(os.path.join(EVID, f"{pid}.json"), "w"), indent=1)


def replay(pid, path):
    body = json.load(open(path))
    eng = body.get("engine")
    if eng == "S":
        ok, _ = build_symex()
        if not ok:
            return 2
        p = subprocess.run([SYMEX_BIN, "replay", "--file", path], env=ENV)
        if p.returncode == 1:
            log(f"VIOLATION property={pid} replay={path}")
            return 1
        if p.returncode == 3:
            log("replay: this kind of finding is re-established by re-running the check")
            return run_property(pid, "quick", 0)
        return p.returncode
    if eng == "K":
        import kani_engine
        return kani_engine.replay(pid, body, path)
    if eng == "M":
        import mir_engine
        return mir_engine.replay(pid, body, path)
    log(f"unknown engine in replay file: {eng}")
    return 64
