"""Engine K: runs Kani proof harnesses of /verif/kani against /repo's current tree (feature verif_hooks)."""
import hashlib
import json
import os
import re
import shutil
import subprocess
import time

VERIF = os.path.dirname(os.path.dirname(os.path.abspath(__file__)))
KANI = os.path.join(VERIF, "kani")
WORK = os.path.join(VERIF, "work")
TARGET = os.path.join(VERIF, "target", "kani")
ENV = dict(os.environ)
ENV["CARGO_NET_OFFLINE"] = "true"

RULE_MESSAGES = ("result violates the documented typing/error rule", "error operand must give an error result",
                 "array with scalar must give an array", "array with array must give an array")

# harness groups: name -> (quick list, thorough-only list); timeouts in seconds
K = "kernels::"
GROUPS = {
    "c01": ([K + "c01_unary_composition_order"], []),
    "c09": ([K + "c09_check_partial_index"], []),
    "c13": ([K + "c13_sign_rule", K + "c13_is_numeric_text", K + "c06_next_char_boundary"], [K + "c13_is_numeric_text_utf8"]),
    "c06": ([K + "c06_next_char_boundary", K + "c13_is_numeric_text"], [K + "c13_is_numeric_text_utf8"]),
    "c14": ([K + "c14_word_tracker_step", K + "c14_eval_binary_all_orders_7_word", K + "c14_eval_binary_all_orders_7_slice"],
            [K + "c14_slice_tracker_step_2w", K + "c14_slice_tracker_step_3w", K + "c14_eval_binary_all_orders_9_word"]),
    # 3 nodes run CBMC out of memory (25 GB) on this image: 2 nodes, thorough tier only; clone counts and all larger
    # patterns are engine S's part of C15
    "c15": ([], [K + "c15_consuming_vs_cloning_2"]),
    # the constants of the derivative rules enter the value type through From<f32> / From<u8>
    "c18k": ([K + "c18_val_from_consts"], []),
}
# value cells: quick = the cells the property texts single out + numeric/error groups of the arithmetic core
# measured alone on this image: un_minus 146 s, un_abs 135 s, un_to_int 130 s, rem_g0 114 s, div_g0 160 s, eq_g0 118 s, casts 110-138 s;
# plus_g0 420 s, pow_g0 484 s, fact 248 s, if_g0 199 s are thorough-tier; mul_g0 does not finish in 900 s
# direct kernels (c16_dir_*: the private operator functions of value.rs through verif_hooks::val, no table construction) cost
# 2-75 s each (length 175 s): ALL of them are quick-tier. Table cells in the quick tier: the operators whose table entry is a
# closure (no direct kernel): / , two comparisons, if / else (numeric and error groups); plus one cast harness. Every table cell is thorough-tier (wiring repr -> function).
CELL_QUICK_SKIP = ["c16_dir_bin_mul_g0"]  # 244 s alone, does not finish in 900 s inside a 12-job batch: thorough tier
CELL_QUICK_UNARY = []
CELL_QUICK_BIN = [("div", 0), ("lt", 0), ("eq", 0), ("if", 0), ("if", 1), ("else", 0), ("else", 1)]
CELL_QUICK_EXTRA = ["c17_casts_i32_f32"]
C17_RULE_CELLS = ("c16_un_minus", "c16_un_abs", "c16_bin_rem", "c16_un_to_int", "c16_un_to_float", "c16_bin_pow", "c16_bin_div", "c16_un_fact", "c16_bin_shl", "c16_bin_shr",
                  "c16_dir_un_minus", "c16_dir_un_abs", "c16_dir_bin_rem", "c16_dir_un_to_int", "c16_dir_un_to_float", "c16_dir_bin_pow", "c16_dir_un_fact", "c16_dir_bin_shl", "c16_dir_bin_shr",
                  "c16_bin_mul", "c16_dir_bin_mul", "c16_bin_plus", "c16_dir_bin_plus", "c16_bin_minus", "c16_dir_bin_minus")


def log(m):
    print(m, flush=True)


def source_hash():
    h = hashlib.sha256()
    for root in ("/repo/src", os.path.join(KANI, "src")):
        for dp, _, fns in sorted(os.walk(root)):
            for fn in sorted(fns):
                p = os.path.join(dp, fn)
                h.update(p.encode())
                h.update(open(p, "rb").read())
    for p in ("/repo/Cargo.toml", os.path.join(KANI, "Cargo.toml")):
        h.update(open(p, "rb").read())
    return h.hexdigest()


def regenerate_cells():
    """index constants of the generated harnesses come from the real tables of the current tree"""
    import engines
    ok, _ = engines.build_symex()
    if not ok:
        return False, "engine S helper does not build"
    os.makedirs(WORK, exist_ok=True)
    tables = os.path.join(WORK, "tables.json")
    p = subprocess.run([engines.SYMEX_BIN, "valtable", "--out", tables], capture_output=True, text=True)
    if p.returncode != 0:
        return False, p.stdout + p.stderr
    p = subprocess.run(["python3", os.path.join(KANI, "gen_cells.py"), tables, os.path.join(KANI, "src")], capture_output=True, text=True)
    if p.returncode != 0:
        return False, p.stdout + p.stderr
    return True, json.load(open(os.path.join(KANI, "harnesses.json")))


def harness_list(groups, tier, cells):
    hs = []
    for g in groups:
        if g in GROUPS:
            q, t = GROUPS[g]
            hs += q + (t if tier == "thorough" else [])
        elif g in ("c16", "c17", "c18"):
            if g == "c18":
                hs += GROUPS["c18k"][0]
            names = cells["c16_unary"] + cells["c16_scalar"] + cells["c16_array"]
            names = names + cells.get("c17_casts", []) + cells.get("c16_direct", [])
            if g == "c18":
                # the functions the piecewise derivatives rest on: thorough tier only (engine S is the quick check of C18)
                sel = [n for n in names if n in ("c16_bin_if_g0", "c16_bin_else_g0", "c16_bin_lt_g0", "c16_bin_eq_g0", "c16_un_to_float")] if tier == "thorough" else []
            elif tier == "thorough":
                sel = names
            else:
                sel = [n for n in names if (n in cells.get("c16_direct", []) and n not in CELL_QUICK_SKIP) or any(n == f"c16_un_{u}" for u in CELL_QUICK_UNARY) or any(n == f"c16_bin_{b}_g{g2}" for b, g2 in CELL_QUICK_BIN) or n in CELL_QUICK_EXTRA]
            hs += ["cells::" + n for n in sel]
        elif g == "c19":
            import glob
            src = open(os.path.join(KANI, "src", "floats.rs")).read()
            names = re.findall(r"fn (c19_\w+)\(\)", src)
            quick = [n for n in names if not n.endswith("_slow")]
            hs += ["floats::" + n for n in (names if tier == "thorough" else quick)]
    return hs


def run_batch(harnesses, timeout_s, jobs, extra_args=None):
    """runs harnesses in one cargo kani invocation; returns {harness: status} plus raw log path"""
    os.makedirs(WORK, exist_ok=True)
    logp = os.path.join(WORK, f"kani_{hashlib.sha1(' '.join(harnesses).encode()).hexdigest()[:10]}.log")
    cmd = ["cargo", "kani", "--target-dir", TARGET, "-Z", "stubbing", "-Z", "unstable-options", "--harness-timeout", str(timeout_s),
           "-j", str(jobs), "--output-format", "terse", "--exact"] + (extra_args or [])  # (--concrete-playback is incompatible with --jobs)
    for h in harnesses:
        cmd += ["--harness", h]
    t0 = time.time()
    with open(logp, "w") as f:
        p = subprocess.run(cmd, cwd=KANI, env=ENV, stdout=f, stderr=subprocess.STDOUT)
    wall = time.time() - t0
    text = open(logp).read()
    status = {}
    if "error: could not compile" in text or re.search(r"^error(\[E\d+\])?:", text, re.M) and "Complete -" not in text:
        return None, text[-3000:], wall, logp
    failed = set(re.findall(r"Verification failed for - (\S+)", text))
    checked = set(re.findall(r"Checking harness (\S+?)\.\.\.", text))
    for h in harnesses:
        if h in failed:
            status[h] = "failed"
        elif h in checked or "Complete -" in text:
            status[h] = "ok" if h in checked else "not-run"
        else:
            status[h] = "not-run"
    m = re.search(r"Complete - (\d+) successfully verified harnesses, (\d+) failures, (\d+) total", text)
    summary = m.groups() if m else None
    # property counts
    props = sum(int(x) for x in re.findall(r"\*\* \d+ of (\d+) failed", text))
    cover_bad = [l for l in re.findall(r"\*\* (\d+) of (\d+) cover properties satisfied", text) if l[0] != l[1]]
    return {"status": status, "summary": summary, "checks": props, "cover_bad": len(cover_bad), "text": text, "blocks": parse_blocks(text)}, None, wall, logp


def parse_blocks(text):
    """attributes the result blocks of a `-j` run to harnesses: `Thread N: Checking harness X...` announces what thread N
    works on, `Thread N: ` (empty) starts the result block of that harness"""
    current = {}
    blocks = {}
    cur_h = None
    for line in text.splitlines():
        m = re.match(r"Thread (\d+): Checking harness (\S+?)\.\.\.", line)
        if m:
            current[m.group(1)] = m.group(2)
            continue
        m = re.match(r"Thread (\d+):\s*$", line)
        if m:
            cur_h = current.get(m.group(1))
            if cur_h:
                blocks[cur_h] = []
            continue
        if line.startswith("Manual Harness Summary") or line.startswith("Complete -"):
            cur_h = None
        if cur_h:
            blocks[cur_h].append(line)
    out = {}
    for h, lines in blocks.items():
        t = "\n".join(lines)
        failed = re.findall(r"Failed Checks: (.*)\n\s*File: \"([^\"]+)\", line (\d+), in (\S+)", t)
        covers = re.findall(r"(\d+) of (\d+) cover properties satisfied", t)
        tm = re.search(r"Verification Time: ([0-9.]+)s", t)
        d = {"verdict": "ok" if "VERIFICATION:- SUCCESSFUL" in t else ("failed" if "VERIFICATION:- FAILED" in t else "inconclusive"),
             "failed_checks": [{"description": x, "file": (f.split("/src/")[-1] if ("/repo/" in f or "/verif/" in f) else os.path.basename(f)), "line": int(l), "function": fn} for x, f, l, fn in failed],
             "covers_ok": all(a == b for a, b in covers) if covers else None,
             "wall_s": float(tm.group(1)) if tm else None, "tail": t[-800:]}
        if "CBMC failed" in t or "out of memory" in t.lower() or "timed out" in t.lower() or "TIMEOUT" in t:
            d["verdict"] = "inconclusive"
            d["why"] = "timeout / CBMC error / out of memory"
        if d["verdict"] == "failed" and not d["failed_checks"]:
            d["verdict"] = "inconclusive"
            d["why"] = "FAILED without a reported failed check (timeout or CBMC error)"
        out[h] = d
    # concrete playback unit tests are printed with the harness name inside the test name
    for m in re.finditer(r"(#\[test\]\nfn kani_concrete_playback_(\w+?)_\d+\(\) \{[\s\S]*?\n\}\n)", text):
        name = m.group(2)
        for h in out:
            if h.split("::")[-1] == name and m.group(1) not in out[h].get("playback_test", ""):
                out[h]["playback_test"] = out[h].get("playback_test", "") + "\n" + m.group(1)
    return out


def run_single(harness, timeout_s, extra_args=None, playback=False):
    """one harness, regular output (details of failed checks, cover results); optionally concrete playback values"""
    cmd = ["cargo", "kani", "--target-dir", TARGET, "-Z", "stubbing", "-Z", "unstable-options", "--harness-timeout", str(timeout_s), "--exact", "--harness", harness] + (extra_args or [])
    if playback:
        cmd += ["-Z", "concrete-playback", "--concrete-playback=print"]
    t0 = time.time()
    p = subprocess.run(cmd, cwd=KANI, env=ENV, stdout=subprocess.PIPE, stderr=subprocess.STDOUT, text=True)
    text = p.stdout
    res = {"harness": harness, "wall_s": round(time.time() - t0, 1)}
    if "VERIFICATION:- SUCCESSFUL" in text:
        res["verdict"] = "ok"
    elif "VERIFICATION:- FAILED" in text:
        res["verdict"] = "failed"
    else:
        res["verdict"] = "inconclusive"
    if "TIMEOUT" in text.upper() or "timed out" in text:
        res["verdict"] = "inconclusive"
        res["why"] = "timeout"
    failed = re.findall(r"Failed Checks: (.*)\n\s*File: \"([^\"]+)\", line (\d+), in (\S+)", text)
    res["failed_checks"] = [{"description": d, "file": f.split("/src/")[-1] if "/repo/" in f or "/verif/" in f else os.path.basename(f), "line": int(l), "function": fn} for d, f, l, fn in failed]
    covers = re.findall(r"(\d+) of (\d+) cover properties satisfied", text)
    res["covers_ok"] = all(a == b for a, b in covers) if covers else None
    if "Status: ERROR" in text or "CBMC failed" in text or "out of memory" in text.lower():
        res["verdict"] = "inconclusive"
        res["why"] = "CBMC error / out of memory"
    if "unsupported" in text.lower() and res["verdict"] == "failed" and all("unsupported" in c["description"].lower() or "not currently supported" in c["description"].lower() for c in res["failed_checks"]) and res["failed_checks"]:
        res["verdict"] = "inconclusive"
        res["why"] = "construct not supported by Kani"
    if playback:
        # Kani prints one unit test per failed check AND one per satisfied cover!: keep them all (distinct names) and let the
        # native replay run every one of them; the counterexample is confirmed if any of them panics
        ms = re.findall(r"(#\[test\]\nfn kani_concrete_playback_[\s\S]*?\n\}\n)", text)
        if ms:
            res["playback_test"] = "\n".join(dict.fromkeys(ms))
    res["tail"] = text[-1500:]
    return res


def native_playback(harness, test_src):
    """compiles the printed concrete-playback unit test into a scratch copy of the harness crate and runs it natively (dev and release)"""
    scratch = os.path.join(WORK, "kani_playback")
    shutil.rmtree(scratch, ignore_errors=True)
    shutil.copytree(KANI, scratch, ignore=shutil.ignore_patterns("target"))
    mod, fn = harness.split("::")
    path = os.path.join(scratch, "src", mod + ".rs")
    with open(path, "a") as f:
        f.write("\n" + test_src + "\n")
    out = {}
    # `cargo kani playback` of 0.68 has no release switch: the replay runs in the dev profile Kani models
    for profile in ([],):
        cmd = ["cargo", "kani", "playback", "-Z", "concrete-playback"] + profile + ["--", "kani_concrete_playback"]
        p = subprocess.run(cmd, cwd=scratch, env=ENV, stdout=subprocess.PIPE, stderr=subprocess.STDOUT, text=True)
        t = p.stdout
        with open(os.path.join(WORK, "kani_playback_last.log"), "w") as lf:  # kept for diagnosis of non-reproducing models
            lf.write(test_src + "\n----\n" + t)
        key = "release" if profile else "dev"
        if "panicked at" in t or "FAILED" in t:
            m = re.search(r"panicked at [^\n]*\n([^\n]*)", t)
            out[key] = "panics: " + (m.group(1).strip() if m else "yes")
        elif "test result: ok" in t:
            out[key] = "passes"
        else:
            out[key] = "could not run: " + t[-300:]
    shutil.rmtree(os.path.join(scratch, "target"), ignore_errors=True)
    shutil.rmtree(scratch, ignore_errors=True)
    return out


def classify(pid, harness, failed_checks):
    """which failed checks count for this property"""
    rule = [c for c in failed_checks if any(m in c["description"] for m in RULE_MESSAGES)]
    other = [c for c in failed_checks if c not in rule]
    base = harness.split("::")[-1]
    if pid == "C16" or pid == "C18":
        return rule
    if pid == "C17":
        keep = list(other)
        if any(base.startswith(c) for c in C17_RULE_CELLS):
            keep += rule
        return keep
    return failed_checks


def run(pid, groups, tier, seed):
    t0 = time.time()
    res = {"engine": "K", "findings": [], "inconclusive_items": [], "samples": [], "functions": [], "assumptions": [
        "Kani 0.68 MIR->GOTO translation, CBMC 6.11, CaDiCaL; unwinding assertions on (a too-small bound is a failure)",
        "alloc::fmt::format stubbed to return an empty string (messages are not the subject)",
        "harness-side oracles transcribed from the rustdoc of the checked items"],
        "outside": [], "rule": "engine K: one case = one Kani proof harness (fully symbolic inputs within its stated bound); CBMC checks every assertion, overflow/unwrap/index check and unwinding assertion of the harness; non-trivial = a harness whose cover! witness is SATISFIED"}
    ok, cells = regenerate_cells()
    if not ok:
        res["error"] = f"cell generation failed: {cells}"
        return res
    if cells.get("missing") and any(g in ("c16", "c17") for g in groups):
        for m in cells["missing"]:
            res["findings"].append({"kind": "missing-operator", "harness": m, "check": "present", "text": m, "detail": f"documented value operator {m} is missing from ValOpsFactory::make()", "confirmed": True})
    hs = harness_list(groups, tier, cells)
    if not hs:
        res["stats"] = {"evaluations": 0, "distinct_nontrivial": 0, "obligations": 0, "discharged": 0}
        return res
    timeout_s = 600 if tier == "quick" else 1800
    jobs = (12 if len(hs) > 20 else 8) if tier == "quick" else 6
    # CBMC's extra float checks flag NaN / infinite RESULTS, which are legitimate here; Rust's own integer overflow assertions stay on
    extra = ["--no-overflow-checks"]
    cache_key = hashlib.sha256((source_hash() + tier + " ".join(hs)).encode()).hexdigest()[:16]
    cache_file = os.path.join(WORK, f"kani_cache_{cache_key}.json")
    if os.path.exists(cache_file) and os.environ.get("VERIF_NO_CACHE") != "1":
        cached = json.load(open(cache_file))
        batch, wall, from_cache = cached["batch"], cached["wall"], True
    else:
        batch, err, wall, logp = run_batch(hs, timeout_s, jobs, extra)
        from_cache = False
        if batch is None:
            res["error"] = "kani build failed: " + err
            return res
        batch.pop("text", None)
        json.dump({"batch": batch, "wall": wall}, open(cache_file, "w"))
    status = batch["status"]
    n_ok = sum(1 for h in hs if status.get(h) == "ok")
    per = []
    need_detail = [h for h in hs if status.get(h) != "ok"]
    if batch.get("cover_bad"):
        need_detail = list(hs)  # a vacuous harness: find out which
    details = {}
    blocks = batch.get("blocks") or {}
    for h in need_detail[:12]:
        d = blocks.get(h)
        if d is None:
            # the batch output could not be attributed: examine the harness on its own
            d = run_single(h, timeout_s, extra, playback=True)
        elif d["verdict"] == "failed" and classify(pid, h, d["failed_checks"]):
            # a relevant failure: obtain concrete inputs for the native replay (playback is incompatible with --jobs)
            d2 = run_single(h, timeout_s, extra, playback=True)
            if d2.get("playback_test"):
                d["playback_test"] = d2["playback_test"]
        d.setdefault("wall_s", None)
        details[h] = d
    for h in hs:
        st = status.get(h)
        d = details.get(h)
        entry = {"harness": h, "status": st}
        if d:
            entry.update({"verdict": d["verdict"], "failed_checks": d["failed_checks"], "covers_ok": d["covers_ok"], "wall_s": d["wall_s"], "why": d.get("why")})
            if d["verdict"] == "ok" and d["covers_ok"] is not False:
                n_ok += 1 if st != "ok" else 0
            elif d["verdict"] == "ok" and d["covers_ok"] is False:
                res["inconclusive_items"].append({"engine": "K", "harness": h, "what": "cover! witness not satisfied: the harness is vacuous"})
            elif d["verdict"] == "inconclusive":
                res["inconclusive_items"].append({"engine": "K", "harness": h, "what": d.get("why", "no verdict"), "tail": d["tail"][-300:]})
            else:
                relevant = classify(pid, h, d["failed_checks"])
                if not relevant and d["failed_checks"]:
                    entry["note"] = "failed checks belong to another property: " + "; ".join(sorted(set(c["description"] for c in d["failed_checks"])))[:300]
                elif not d["failed_checks"]:
                    res["inconclusive_items"].append({"engine": "K", "harness": h, "what": "FAILED without a recognisable failed check", "tail": d["tail"][-400:]})
                else:
                    f = {"kind": "kani", "harness": h, "check": "; ".join(sorted(set(c["description"] for c in relevant)))[:300],
                         "text": h, "detail": "; ".join(f"{c['description']} @ {c['file']}:{c['line']} in {c['function']}" for c in relevant)[:600],
                         "playback_test": d.get("playback_test")}
                    if d.get("playback_test"):
                        nat = native_playback(h, d["playback_test"])
                        f["native"] = nat
                        f["confirmed"] = any(v.startswith("panics") for v in nat.values())
                    else:
                        f["confirmed"] = None
                        f["native"] = "no concrete playback produced"
                    if f["confirmed"] is False:
                        f["kind"] = "value"  # non-reproducing: routed to the suspect list
                    res["findings"].append(f)
        elif st != "ok":
            res["inconclusive_items"].append({"engine": "K", "harness": h, "what": f"status {st} (not examined individually: more than 12 non-passing harnesses)"})
        per.append(entry)
    res["harnesses"] = per
    res["samples"] = [{"harness": e["harness"], "status": e["status"]} for e in per[:8]]
    res["stats"] = {"evaluations": len(hs), "distinct_nontrivial": n_ok, "obligations": int(batch.get("checks") or 0), "discharged": int(batch.get("checks") or 0) if not need_detail else 0,
                    "harnesses": len(hs), "passed": n_ok, "solver_s": round(wall, 1), "from_cache": from_cache, "sat": 0, "unsat": n_ok, "inconclusive": len(res["inconclusive_items"])}
    res["functions"] = sorted(set(functions_of(hs)))
    res["bounds"] = {"tier": tier, "harness_timeout_s": timeout_s, "jobs": jobs, "unwind": "per harness (#[kani::unwind]), unwinding assertions on"}
    res["wall_s"] = time.time() - t0
    return res


def functions_of(hs):
    out = []
    for h in hs:
        b = h.split("::")[-1]
        if b.startswith("c14_word") or b.startswith("c14_slice"):
            out.append("number_tracker::NumberTracker for usize / [usize] (get_previous, get_next, consume_next, ignore, max_len)")
        elif b.startswith("c14_eval"):
            out.append("expression::eval_binary")
        elif b.startswith("c01_unary"):
            out.append("operators::UnaryOp::apply")
        elif b.startswith("c13_sign"):
            out.append("parser::is_operator_binary")
        elif b.startswith("c13_is_numeric"):
            out.append("parser::is_numeric_text")
        elif b.startswith("c06_next"):
            out.append("parser::next_char_boundary")
        elif b.startswith("c09"):
            out.append("partial::check_partial_index")
        elif b.startswith("c15"):
            out += ["flat::detail::eval_flatex_consuming_vars", "flat::detail::eval_flatex_cloning"]
        elif b.startswith("c16"):
            out.append("value::ValOpsFactory::<i32,f64>::make() entry `" + b.replace("c16_", "") + "` (function pointer looked up by natively computed index, repr() asserted in the harness)")
        elif b.startswith("c19"):
            out.append("operators::FloatOpsFactory::make() entry " + b.replace("c19_", ""))
    return out


def replay(pid, body, path):
    f = body["finding"]
    h = f.get("harness")
    if f.get("playback_test") and h:
        nat = native_playback(h, f["playback_test"])
        print(f"replay: harness {h} on the stored concrete inputs, natively: {nat}")
        if any(v.startswith("panics") for v in nat.values()):
            print(f"VIOLATION property={pid} replay={path}")
            return 1
        print("NOT-REPRODUCED")
        return 0
    import engines
    return engines.run_property(pid, "quick", 0)
