"""Engine M (C19): the nightly compiler's MIR dump of FloatOpsFactory::make is translated, entry by entry,
into SMT-LIB FloatingPoint terms; z3 decides body(a,b) = the function the entry's name documents, for all a, b."""
import json
import os
import re
import shutil
import struct
import subprocess
import time

VERIF = os.path.dirname(os.path.dirname(os.path.abspath(__file__)))
WORK = os.path.join(VERIF, "work")
TARGET = os.path.join(VERIF, "target", "mir")
ENV = dict(os.environ)
ENV["CARGO_NET_OFFLINE"] = "true"

CONSTS = {"std::f64::consts::PI": 3.141592653589793, "std::f64::consts::E": 2.718281828459045, "std::f64::consts::TAU": 6.283185307179586}

# documented name -> primitive (the oracle of this engine; transcribed from the rustdoc table of FloatOpsFactory)
BIN_SPEC = {
    "^": ("uf", "powf"), "*": ("fp", "fp.mul"), "/": ("fp", "fp.div"), "+": ("fp", "fp.add"), "-": ("fp", "fp.sub"),
    "atan2": ("uf", "atan2"), "min": ("ufc", "min"), "max": ("ufc", "max"),
}
UN_SPEC = {"+": ("id", None), "-": ("fp1", "fp.neg")}
for _n in ["abs", "signum", "sin", "cos", "tan", "asin", "acos", "atan", "sinh", "cosh", "tanh", "asinh", "acosh", "atanh",
           "floor", "round", "ceil", "trunc", "fract", "exp", "sqrt", "cbrt", "ln", "log2", "log10"]:
    UN_SPEC[_n] = ("uf", _n)
UN_SPEC["log"] = ("uf", "ln")
CONST_SPEC = {"PI": "std::f64::consts::PI", "π": "std::f64::consts::PI", "E": "std::f64::consts::E", "e": "std::f64::consts::E",
              "TAU": "std::f64::consts::TAU", "τ": "std::f64::consts::TAU"}
TRAIT_OPS = {"Add>::add": "fp.add", "Sub>::sub": "fp.sub", "Mul>::mul": "fp.mul", "Div>::div": "fp.div", "Neg>::neg": "fp.neg", "Rem>::rem": "fp.rem"}


def dump_mir():
    os.makedirs(WORK, exist_ok=True)
    os.makedirs(TARGET, exist_ok=True)
    # force re-emission for the current working tree without touching /repo
    fp = os.path.join(TARGET, "debug", ".fingerprint")
    if os.path.isdir(fp):
        for d in os.listdir(fp):
            if d.startswith("exmex-"):
                shutil.rmtree(os.path.join(fp, d), ignore_errors=True)
    env = dict(ENV)
    env["CARGO_TARGET_DIR"] = TARGET
    out = os.path.join(WORK, "exmex.mir")
    with open(out, "w") as f:
        p = subprocess.run(["cargo", "+nightly", "rustc", "--offline", "--lib", "--", "-Zunpretty=mir", "-C", "debug-assertions=off"],
                           cwd="/repo", env=env, stdout=f, stderr=subprocess.PIPE, text=True)
    if p.returncode != 0:
        return None, p.stderr[-3000:]
    return out, ""


def split_functions(text):
    """returns {header: [lines]} for every `fn ...` item of the dump"""
    fns = {}
    cur = None
    for line in text.splitlines():
        if line.startswith("fn "):
            cur = line
            fns[cur] = []
        elif cur is not None:
            if line.startswith("}"):
                cur = None
            else:
                fns[cur].append(line)
    return fns


def blocks_of(lines):
    blocks = {}
    cur = None
    for l in lines:
        m = re.match(r"\s*(bb\d+)(?: \(cleanup\))?: \{", l)
        if m:
            cur = m.group(1)
            blocks[cur] = []
        elif cur is not None:
            if l.strip() == "}":
                cur = None
            else:
                blocks[cur].append(l.strip())
    return blocks


class Inconclusive(Exception):
    pass


def operand(tok, env):
    tok = tok.strip()
    m = re.match(r"(?:copy|move) (_\d+)$", tok)
    if m:
        if m.group(1) not in env:
            raise Inconclusive(f"use of unknown local {tok}")
        return env[m.group(1)]
    raise Inconclusive(f"unrecognised operand `{tok}`")


def fp_const(x, sort):
    eb, sb = (11, 53) if "11 53" in sort else (8, 24)
    return f"((_ to_fp {eb} {sb}) RNE {x})"


def interpret_closure(lines, nargs, sort, fns=None, params=None, depth=0):
    """Symbolically executes a function body of the MIR dump (closure or named helper): straight-line code, calls of
    trait methods, references, comparisons and switchInt branches (folded into ite terms). Returns an SMT term."""
    if params is None:
        params = {"_2": "a"}
        if nargs == 2:
            params["_3"] = "b"
    blocks = blocks_of(lines)
    ufs = set()
    budget = [400]

    def deref(tok, env):
        tok = tok.strip()
        m = re.match(r"(?:copy|move) \(\*(_\d+)\)$", tok)
        if m:
            tok = f"copy {m.group(1)}"
        return operand(tok, env)

    def call(trait, meth, args, env):
        tkey = trait.split("::")[-1]
        key = f"{tkey}>::{meth}"
        if key in TRAIT_OPS:
            op = TRAIT_OPS[key]
            if op == "fp.neg":
                return f"(fp.neg {args[0]})"
            if op == "fp.rem":
                raise Inconclusive("Rem in an operator body")
            return f"({op} RNE {args[0]} {args[1]})"
        if key == "One>::one":
            return fp_const("1.0", sort)
        if key == "Zero>::zero":
            return fp_const("0.0", sort)
        if tkey == "PartialEq" and meth in ("eq", "ne"):
            t = f"(fp.eq {args[0]} {args[1]})"
            return t if meth == "eq" else f"(not {t})"
        if tkey == "PartialOrd" and meth in ("lt", "le", "gt", "ge"):
            return f"(fp.{ {'lt': 'lt', 'le': 'leq', 'gt': 'gt', 'ge': 'geq'}[meth]} {args[0]} {args[1]})"
        if tkey in ("Float", "Real", "FloatCore"):
            if meth == "recip":
                return f"(fp.div RNE {fp_const('1.0', sort)} {args[0]})"
            if meth in ("is_nan",):
                return f"(fp.isNaN {args[0]})"
            name = f"F_{meth}"
            ufs.add((name, len(args)))
            return f"({name} {' '.join(args)})"
        raise Inconclusive(f"call to <T as {trait}>::{meth} not understood")

    def run(bb, env):
        budget[0] -= 1
        if budget[0] < 0 or bb not in blocks:
            raise Inconclusive("control flow not understood")
        for st in blocks[bb]:
            if st.startswith(("StorageLive", "StorageDead", "nop", "FakeRead", "PlaceMention", "debug ", "let ", "scope", "}")):
                continue
            if st == "return;":
                if "_0" not in env:
                    raise Inconclusive("return without value")
                return env["_0"]
            m = re.match(r"(_\d+) = (copy|move) (_\d+);$", st)
            if m:
                env[m.group(1)] = operand(f"{m.group(2)} {m.group(3)}", env)
                continue
            m = re.match(r"(_\d+) = &(?:mut )?(_\d+);$", st)
            if m:
                if m.group(2) not in env:
                    raise Inconclusive(f"reference to unknown local {m.group(2)}")
                env[m.group(1)] = env[m.group(2)]
                continue
            m = re.match(r"(_\d+) = (?:copy|move) \(\*(_\d+)\);$", st)
            if m:
                env[m.group(1)] = env[m.group(2)]
                continue
            m = re.match(r"(_\d+) = const (-?[0-9.eE+-]+)_?f(32|64);$", st)
            if m:
                env[m.group(1)] = fp_const(m.group(2), sort)
                continue
            m = re.match(r"(_\d+) = <T as NumCast>::from::<f(?:32|64)>\(const ([^)]+)\) -> \[return: (bb\d+),", st)
            if m:
                c = m.group(2).replace("_f64", "").replace("_f32", "").replace("f64", "").replace("f32", "")
                val = CONSTS.get(c)
                if val is None:
                    try:
                        val = float(c)
                    except ValueError:
                        raise Inconclusive(f"constant {c} not understood")
                env[m.group(1)] = ("opt", fp_const(repr(val), sort))
                return run(m.group(3), env)
            m = re.match(r"(_\d+) = Option::<T>::unwrap\(move (_\d+)\) -> \[return: (bb\d+),", st)
            if m:
                v = env.get(m.group(2))
                if not (isinstance(v, tuple) and v[0] == "opt"):
                    raise Inconclusive("unwrap of an unknown option")
                env[m.group(1)] = v[1]
                return run(m.group(3), env)
            m = re.match(r"(_\d+) = <T as ([A-Za-z:]+)>::(\w+)\((.*)\) -> \[return: (bb\d+), unwind[^\]]*\];$", st)
            if m:
                dst, trait, meth, args, ret = m.groups()
                argv = [deref(x, env) for x in args.split(",")] if args.strip() else []
                env[dst] = call(trait, meth, argv, env)
                return run(ret, env)
            m = re.match(r"(_\d+) = ([A-Za-z_][\w:]*?)(?:::<T>)?\((.*)\) -> \[return: (bb\d+), unwind[^\]]*\];$", st)
            if m and fns is not None:
                # call of a helper function of the crate: inline it
                dst, fname, args, ret = m.groups()
                argv = [deref(x, env) for x in args.split(",")] if args.strip() else []
                body = helper_body(fns, fname)
                if body is None or depth > 3:
                    raise Inconclusive(f"call to {fname} not understood")
                t, u2 = interpret_closure(body, len(argv), sort, fns, {f"_{i + 1}": v for i, v in enumerate(argv)}, depth + 1)
                ufs.update(u2)
                env[dst] = t
                return run(ret, env)
            m = re.match(r"switchInt\((?:move|copy) (_\d+)\) -> \[0: (bb\d+), otherwise: (bb\d+)\];$", st)
            if m:
                c = env.get(m.group(1))
                if c is None:
                    raise Inconclusive("switch on unknown value")
                e = run(m.group(2), dict(env))
                t = run(m.group(3), dict(env))
                return f"(ite {c} {t} {e})"
            m = re.match(r"goto -> (bb\d+);$", st)
            if m:
                return run(m.group(1), env)
            raise Inconclusive(f"statement not understood: {st}")
        raise Inconclusive("block without recognised terminator")

    term = run("bb0", dict(params))
    return term, ufs


def helper_body(fns, name):
    last = name.split("::")[-1]
    cands = [h for h in fns if re.match(r"fn (?:[\w:<> ]*::)?" + re.escape(last) + r"\(", h)]
    if len(cands) == 1:
        return fns[cands[0]]
    return None


def parse_make(fns):
    """finds FloatOpsFactory::make and returns the list of table entries"""
    cands = [h for h in fns if re.search(r"::make\(\) -> Vec<Operator<'_, T>>", h) and "operators.rs" in h]
    if len(cands) != 1:
        raise Inconclusive(f"expected exactly one FloatOpsFactory::make in the MIR dump, found {len(cands)}")
    header = cands[0]
    blocks = blocks_of(fns[header])
    entries = []
    strs, closures, binops, consts, unwrapped = {}, {}, {}, {}, {}
    order = sorted(blocks, key=lambda b: int(b[2:]))
    for bb in order:
        for st in blocks[bb]:
            m = re.match(r'(_\d+) = const "(.*)";$', st)
            if m:
                strs[m.group(1)] = m.group(2)
                continue
            m = re.match(r"(_\d+) = const ZeroSized: \{closure@([^}]+)\} as fn\((T(?:, T)?)\) -> T", st)
            if m:
                closures[m.group(1)] = (m.group(2), 2 if "," in m.group(3) else 1)
                continue
            m = re.match(r"(_\d+) = ([A-Za-z_][\w:]*?)(?:::<T>)? as fn\((T(?:, T)?)\) -> T", st)
            if m:
                closures[m.group(1)] = ("fn:" + m.group(2), 2 if "," in m.group(3) else 1)
                continue
            m = re.match(r"(_\d+) = BinOp::<T> \{ apply: move (_\d+), prio: const (-?\d+)_i64, is_commutative: const (true|false) \};$", st)
            if m:
                binops[m.group(1)] = (m.group(2), int(m.group(3)), m.group(4) == "true")
                continue
            m = re.match(r"(_\d+) = <T as NumCast>::from::<f64>\(const ([^)]+)\) -> ", st)
            if m:
                consts[m.group(1)] = m.group(2)
                continue
            m = re.match(r"(_\d+) = Option::<T>::unwrap\(move (_\d+)\) -> ", st)
            if m:
                unwrapped[m.group(1)] = consts.get(m.group(2))
                continue
            m = re.match(r"(_\d+) = Operator::<'_, T>::(make_bin|make_unary|make_bin_unary|make_constant)\((.*)\) -> ", st)
            if m:
                kind = m.group(2)
                args = [a.strip().replace("move ", "") for a in m.group(3).split(",")]
                name = strs.get(args[0])
                e = {"name": name, "kind": kind}
                if kind == "make_bin":
                    e["bin"] = binops.get(args[1])
                elif kind == "make_unary":
                    e["un"] = args[1]
                elif kind == "make_bin_unary":
                    e["bin"] = binops.get(args[1])
                    e["un"] = args[2]
                else:
                    e["const"] = unwrapped.get(args[1])
                entries.append(e)
    return header, entries, closures


def closure_body(fns, make_header, span):
    prefix = make_header.split("::make()")[0] + "::make::{closure#"
    for h, lines in fns.items():
        if h.startswith(prefix) and f"{{closure@{span}}}" in h:
            return lines
    return None


def interpreted_def(f, ar, s):
    """primitives with an exact SMT-LIB FloatingPoint meaning are DEFINED (so a difference between two exact
    formulas, e.g. round(a) vs trunc(a + copysign(0.5, a)), yields a real operand and not an arbitrary function
    interpretation); everything else (transcendental functions, powf, powi, min/max on signed zeros) stays
    uninterpreted. NaN carries no sign in SMT-LIB: a model that relies on it does not reproduce and is a SUSPECT."""
    one = fp_const("1.0", s)
    rm = {"F_round": "RNA", "F_trunc": "RTZ", "F_floor": "RTN", "F_ceil": "RTP"}
    if f in rm and ar == 1:
        return f"(define-fun {f} ((x {s})) {s} (fp.roundToIntegral {rm[f]} x))"
    if f == "F_abs" and ar == 1:
        return f"(define-fun {f} ((x {s})) {s} (fp.abs x))"
    if f == "F_sqrt" and ar == 1:
        return f"(define-fun {f} ((x {s})) {s} (fp.sqrt RNE x))"
    if f == "F_fract" and ar == 1:
        return f"(define-fun {f} ((x {s})) {s} (fp.sub RNE x (fp.roundToIntegral RTZ x)))"
    if f == "F_signum" and ar == 1:
        return f"(define-fun {f} ((x {s})) {s} (ite (fp.isNaN x) x (ite (fp.isNegative x) (fp.neg {one}) {one})))"
    if f == "F_copysign" and ar == 2:
        return f"(define-fun {f} ((x {s}) (y {s})) {s} (ite (fp.isNaN x) x (ite (fp.isNegative y) (fp.neg (fp.abs x)) (fp.abs x))))"
    if f == "F_mul_add" and ar == 3:
        return f"(define-fun {f} ((x {s}) (y {s}) (z {s})) {s} (fp.fma RNE x y z))"
    return None


def fp_sort(width):
    return "(_ FloatingPoint 11 53)" if width == 64 else "(_ FloatingPoint 8 24)"


def z3_query(script, timeout_s):
    t0 = time.time()
    p = subprocess.run(["/usr/bin/z3", "-in", f"-T:{timeout_s}"], input=script, capture_output=True, text=True)
    out = p.stdout.strip().splitlines()
    dt = time.time() - t0
    if any("(error" in l for l in out):
        return "inconclusive", out, dt
    if out and out[0] in ("sat", "unsat"):
        return out[0], out[1:], dt
    return "inconclusive", out, dt


def fp_model_value(lines, name, width):
    """extracts a (fp #b.. #b.. #b..) / special value for `name` from get-value output and returns raw bits"""
    text = " ".join(lines)
    m = re.search(r"\(\(" + name + r" (.*?)\)\)(?: |$)", text)
    if not m:
        m = re.search(r"\(" + name + r" (\(fp [^)]*\)|\(_ [^)]*\))\)", text)
        if not m:
            return None
    v = m.group(1).strip()
    eb, sb = (11, 53) if width == 64 else (8, 24)
    mm = re.match(r"\(fp #b([01]) #[bx]([0-9a-f]+) #[bx]([0-9a-f]+)\)", v)
    if mm:
        def bits(s, raw, n):
            return int(s, 2 if raw == "b" else 16)
        sign = int(mm.group(1))
        parts = re.findall(r"#([bx])([0-9a-f]+)", v)
        e = int(parts[1][1], 2 if parts[1][0] == "b" else 16)
        f = int(parts[2][1], 2 if parts[2][0] == "b" else 16)
        return (sign << (eb + sb - 1)) | (e << (sb - 1)) | f
    if "+zero" in v:
        return 0
    if "-zero" in v:
        return 1 << (eb + sb - 1)
    if "+oo" in v:
        return ((1 << eb) - 1) << (sb - 1)
    if "-oo" in v:
        return (1 << (eb + sb - 1)) | (((1 << eb) - 1) << (sb - 1))
    if "NaN" in v:
        return (((1 << eb) - 1) << (sb - 1)) | (1 << (sb - 2))
    return None


def run(pid, tier, seed):
    t0 = time.time()
    res = {"engine": "M", "findings": [], "inconclusive_items": [], "samples": [],
           "functions": ["FloatOpsFactory::<T>::make (every table entry and every closure body, from the MIR of the current source)"],
           "assumptions": ["num::Float methods are modelled as uninterpreted functions named after the method: the forwarding of num::Float to the std primitive is trusted here and proved by engine K's tagged stubs",
                           "+ - * / on T are IEEE-754 round-to-nearest-even operations (SMT-LIB fp.add/fp.sub/fp.mul/fp.div RNE)",
                           "min/max are modelled as symmetric (Rust leaves the sign of zero of min(0,-0) unspecified)"],
           "outside": ["numerical quality of libm", "evaluation through parsed text (structure: C01, lexing: C13)"],
           "rule": "engine M: one obligation per (table entry, role, width): forall a b. body(a,b) = documented function(a,b), equality = SMT-LIB FloatingPoint object equality (bit-equal or both NaN); a case is non-trivial when the body contains an interpreted IEEE operation or a two-argument function (argument order matters)"}
    mir, err = dump_mir()
    if mir is None:
        res["error"] = "MIR dump failed: " + err
        return res
    text = open(mir).read()
    fns = split_functions(text)
    obligations = discharged = nontrivial = 0
    solver_s = 0.0
    q = {"sat": 0, "unsat": 0, "inconclusive": 0}
    names_seen = {"bin": set(), "un": set(), "const": set()}
    try:
        header, entries, closures = parse_make(fns)
    except Inconclusive as e:
        res["inconclusive_items"].append({"engine": "M", "what": str(e)})
        res["stats"] = {"evaluations": 0, "distinct_nontrivial": 0, "obligations": 0, "discharged": 0}
        return res
    timeout = 60 if tier == "quick" else 300
    for e in entries:
        name = e["name"]
        roles = []
        if e.get("bin"):
            roles.append(("bin", e["bin"][0]))
        if e.get("un"):
            roles.append(("un", e["un"]))
        if e["kind"] == "make_constant":
            names_seen["const"].add(name)
            want = CONST_SPEC.get(name)
            if want is None:
                continue  # additional constant: not part of the property
            obligations += 1
            if e.get("const") == want:
                discharged += 1
                q["unsat"] += 0
            elif e.get("const") is None:
                res["inconclusive_items"].append({"engine": "M", "what": f"constant {name}: operand not recognised"})
            else:
                res["findings"].append({"kind": "constant", "harness": f"const {name}", "check": "value", "text": name,
                                        "detail": f"constant `{name}` is built from {e.get('const')} instead of {want}", "confirmed": True})
            continue
        for role, local in roles:
            spec = (BIN_SPEC if role == "bin" else UN_SPEC).get(name)
            names_seen[role].add(name)
            if spec is None:
                continue
            cl = closures.get(local)
            if cl is None:
                obligations += 2
                res["inconclusive_items"].append({"engine": "M", "what": f"{name} ({role}): function operand is not a closure literal"})
                continue
            span, nargs = cl
            named = span.startswith("fn:")
            body_lines = helper_body(fns, span[3:]) if named else closure_body(fns, header, span)
            for width in (64, 32):
                obligations += 1
                try:
                    if body_lines is None:
                        raise Inconclusive("closure body not found in MIR dump")
                    if (role == "bin") != (nargs == 2):
                        raise Inconclusive("arity mismatch")
                    params = {"_1": "a", "_2": "b"} if named else None
                    if named and nargs == 1:
                        params = {"_1": "a"}
                    body, ufs = interpret_closure(body_lines, nargs, fp_sort(width), fns, params)
                except Inconclusive as ex:
                    res["inconclusive_items"].append({"engine": "M", "what": f"{name} ({role}, f{width}): {ex}"})
                    continue
                s = fp_sort(width)
                kind, prim = spec
                decl = [f"(declare-const a {s})", f"(declare-const b {s})"]
                lemmas = []
                if kind == "fp":
                    spec_t = f"({prim} RNE a b)"
                elif kind == "fp1":
                    spec_t = f"({prim} a)"
                elif kind == "id":
                    spec_t = "a"
                elif kind in ("uf", "ufc"):
                    fname = f"F_{prim}"
                    ufs = set(ufs) | {(fname, nargs)}
                    spec_t = f"({fname} a b)" if nargs == 2 else f"({fname} a)"
                    if kind == "ufc":
                        lemmas.append(f"(assert (= ({fname} a b) ({fname} b a)))")
                for (f, ar) in sorted(ufs):
                    d = interpreted_def(f, ar, s)
                    decl.append(d if d else f"(declare-fun {f} ({' '.join([s] * ar)}) {s})")
                base = "(set-logic ALL)\n(set-option :produce-models true)\n" + "\n".join(decl + lemmas) + f"\n(assert (not (= {body} {spec_t})))\n(check-sat)\n"
                verdict, rest, dt = z3_query(base, timeout)
                solver_s += dt
                if verdict == "sat":
                    # values are asked in a second run so that an (error after `unsat` can never be mistaken for a verdict
                    v2, rest, dt2 = z3_query(base + "(get-value (a))\n(get-value (b))\n", timeout)
                    solver_s += dt2
                q[verdict] += 1
                interesting = ("fp." in body) or nargs == 2
                if interesting:
                    nontrivial += 1
                if len(res["samples"]) < 6 and interesting and width == 64:
                    res["samples"].append({"entry": name, "role": role, "width": width, "mir_body": body, "spec": spec_t, "verdict": verdict})
                if verdict == "unsat":
                    discharged += 1
                elif verdict == "inconclusive":
                    res["inconclusive_items"].append({"engine": "M", "what": f"{name} ({role}, f{width}): solver gave no verdict", "output": rest[:3]})
                else:
                    abits = fp_model_value(rest, "a", width)
                    bbits = fp_model_value(rest, "b", width)
                    f = {"kind": "float-op", "harness": f"{name} {role} f{width}", "check": "body = documented function", "text": name,
                         "impl": body, "ref": spec_t, "role": role, "width": width, "a_bits": abits, "b_bits": bbits,
                         "detail": f"operator `{name}` ({role}, f{width}): MIR body {body} differs from documented {spec_t}"}
                    f["confirmed"], f["native"] = native_replay(f)
                    res["findings"].append(f)
    # documented names that are missing from the table
    for role, specs in (("bin", BIN_SPEC), ("un", UN_SPEC), ("const", CONST_SPEC)):
        for n in specs:
            if n not in names_seen[role]:
                res["findings"].append({"kind": "missing-operator", "harness": f"{n} {role}", "check": "present", "text": n, "detail": f"documented {role} operator/constant `{n}` is missing from the default table", "confirmed": True})
    # unconfirmed sat answers are suspects, not violations
    for f in res["findings"]:
        if f.get("confirmed") is False:
            f["kind"] = "value"  # routed to the suspect list by the driver
    res["stats"] = {"evaluations": obligations, "distinct_nontrivial": nontrivial, "obligations": obligations, "discharged": discharged,
                    "solver_s": round(solver_s, 3), "entries": len(entries), **q}
    res["wall_s"] = time.time() - t0
    res["bounds"] = {"widths": [64, 32], "entries": len(entries), "timeout_s": timeout, "note": "the MIR is generic in T; each width instantiates the IEEE operations"}
    return res


SPECIALS = [0.0, -0.0, 1.0, -1.0, 0.5, 2.0, -3.0, 10.0, 0.1, float("inf"), float("-inf"), float("nan"), 5e-324, 1e300,
            1.5, 2.5, -2.5, -0.5, 0.49999999999999994, -0.49999999999999994, 0.4999999701976776, 4503599627370497.0, 8388609.0, 9007199254740992.0,
            1e-310, 1.7976931348623157e308, -1e300, 3.0, 100.0, 0.25]


def native_replay(f):
    """calls the real operator function pointer on the solver's operands (needs the symex helper binary). When the
    two sides differ in an uninterpreted function symbol or only on one branch of the body, the solver's point is
    arbitrary in the other coordinates, so the solver's operands are also crossed with a catalogue of special values;
    the first point on which the real operator differs from the primitive is the witness."""
    import engines
    ok, _ = engines.build_symex()
    if not ok:
        return None, "no native replay possible"
    width = f["width"]
    def bits(x):
        if width == 64:
            return struct.unpack("<Q", struct.pack("<d", x))[0]
        if abs(x) > 3e38 and x == x and abs(x) != float("inf"):
            x = 3e38 if x > 0 else -3e38
        return struct.unpack("<I", struct.pack("<f", x))[0]
    points = []
    sa, sb = f.get("a_bits"), f.get("b_bits")
    if sa is not None:
        points.append((sa, sb or 0))
    sp = [bits(x) for x in SPECIALS]
    if sb is not None:
        points += [(x, sb) for x in sp]
    if sa is not None:
        points += [(sa, y) for y in sp]
    points += [(x, y) for x in sp for y in sp]
    last = ""
    seen = set()
    for (a, b) in points:
        if (a, b) in seen:
            continue
        seen.add((a, b))
        args = [engines.SYMEX_BIN, "floatop", "--name", f["text"], "--role", f["role"], "--width", str(width), "--a", str(a), "--b", str(b)]
        p = subprocess.run(args, capture_output=True, text=True)
        last = p.stdout.strip()
        if "DIFFERS" in last:
            return True, last
    return False, last


def replay(pid, body, path):
    f = body["finding"]
    if f.get("kind") == "float-op":
        c, out = native_replay(f)
        print(f"replay: real operator `{f['text']}` ({f['role']}, f{f['width']}) on the solver's operands: {out}")
        if c:
            print(f"VIOLATION property={pid} replay={path}")
            return 1
        print("NOT-REPRODUCED")
        return 0
    import engines
    return engines.run_property(pid, "quick", 0)
