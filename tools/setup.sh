#!/bin/sh
# Builds the framework offline from files on disk only.
set -e
cd "$(dirname "$0")/.."
export CARGO_NET_OFFLINE=true
mkdir -p target work evidence replay
(cd symex && CARGO_TARGET_DIR=/verif/target/symex cargo build --release --offline)
# engine K: generate the cell harnesses from the real tables and compile the harness crate once (codegen only)
./target/symex/release/symex valtable --out work/tables.json
python3 kani/gen_cells.py work/tables.json kani/src >/dev/null
(cd kani && cargo kani --target-dir /verif/target/kani -Z stubbing --only-codegen >/dev/null 2>&1 || echo "warning: kani codegen failed (checks will report it)")
# engine M: compile the dependencies for the nightly MIR dump once
(cd /repo && CARGO_TARGET_DIR=/verif/target/mir cargo +nightly rustc --offline --lib -- -Zunpretty=mir -C debug-assertions=off >/dev/null 2>&1 || true)
echo setup ok
