#!/bin/sh
# Builds the framework offline from files on disk only.
set -e
cd "$(dirname "$0")/.."
export CARGO_NET_OFFLINE=true
mkdir -p target work evidence replay
(cd symex && CARGO_TARGET_DIR=/verif/target/symex cargo build --release --offline)
echo setup ok
