#!/usr/bin/env python3
"""usage: mk_seed_meta.py <seed-id> <checks, e.g. 'C05'> <result text>: writes seeded/<id>/meta.json from agent_meta.json"""
import json, sys, os
sid, checks, result = sys.argv[1], sys.argv[2], sys.argv[3]
d = os.path.join("/verif/seeded", sid)
a = json.load(open(os.path.join(d, "agent_meta.json")))
m = {"property": a.get("property", sid.split("-")[0]), "seed": sid, "summary": a.get("summary"), "needs_to_manifest": a.get("needs_to_manifest"),
     "failing_input": a.get("failing_input"),
     "written_by": "independent sub-agent given only the property text and a scratch worktree (nothing from /verif)",
     "confirmed": "tools/confirm_seed.sh in the scratch worktree: existing suite passes with the patch (default and --features partial,value,serde); demo.rs fails with the patch and passes without it",
     "how_run": f"tools/run_seed.sh {sid} quick {checks}  (git -C /repo apply patch.diff; ./check <id>; git -C /repo checkout -- .)",
     "result": result}
json.dump(m, open(os.path.join(d, "meta.json"), "w"), indent=1)
print("written", d)
