#!/bin/bash
# usage: run_seed.sh <seed-id> <tier> <check ids...>  : applies /verif/seeded/<id>/patch.diff to /repo, runs the checks, reverts.
set -u
ID=$1; TIER=$2; shift 2
P=/verif/seeded/$ID/patch.diff
cd /repo && git diff --quiet || { echo "/repo dirty"; exit 1; }
git -C /repo apply $P || { echo "patch does not apply"; exit 1; }
# evidence written while /repo is mutated must never survive: it is restored afterwards
BK=$(mktemp -d /verif/work/evidence_bk.XXXXXX); cp -a /verif/evidence/. $BK/
for C in "$@"; do
  (cd /verif && ./check $C --tier $TIER > /verif/work/seed_${ID}_$C.log 2>&1; echo "seed=$ID check=$C tier=$TIER exit=$? $(grep -c '^VIOLATION' /verif/work/seed_${ID}_$C.log) violation lines; first: $(grep -m1 -A1 '^VIOLATION' /verif/work/seed_${ID}_$C.log | tail -1 | cut -c1-200)")
done
git -C /repo checkout -- .
rm -rf /verif/evidence; mkdir -p /verif/evidence; cp -a $BK/. /verif/evidence/; rm -rf $BK
# replay files of the seeded violations are kept with the logs, not in /verif/replay
mkdir -p /verif/work/seed_replays/$ID; mv /verif/replay/*.json /verif/work/seed_replays/$ID/ 2>/dev/null
git -C /repo status --short | head -3
