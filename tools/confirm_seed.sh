#!/bin/bash
# usage: confirm_seed.sh <agent-dir-name> <seed-id>   e.g. confirm_seed.sh a10 C07-unicode-blank
# Confirms in the scratch worktree /tmp/wt/<a> that (1) the suite passes with the patch, (2) the demo fails with
# the patch and passes without it; then stores the seed under /verif/seeded/<seed-id>/.
set -u
A=$1; ID=$2
WT=/tmp/wt/$A; OUT=/tmp/seed_out/$A; DST=/verif/seeded/$ID
export CARGO_NET_OFFLINE=true
cd $WT || exit 1

git checkout -q -- . ; git clean -fdq tests
git apply $OUT/patch.diff || { echo "patch does not apply"; exit 1; }
cp $OUT/demo.rs tests/zz_seed_demo.rs
echo "== suite with patch"
cargo test -j 3 --offline 2>&1 | grep -E "^test result|FAILED|error(\[|:)" | grep -v zz_seed | head -12
S1=$(cargo test -j 3 --offline 2>&1 | grep -E "^test result" | grep -c FAILED)
echo "== suite with patch, all features"
cargo test -j 3 --offline --features partial,value,serde 2>&1 | grep -E "^test result|FAILED|error(\[|:)" | head -14
echo "== demo with patch (must fail)"
cargo test -j 3 --offline --features partial,value,serde --test zz_seed_demo 2>&1 | grep -E "^test result|^test .*FAILED|error(\[|:)" | head -8
D1=$(cargo test -j 3 --offline --features partial,value,serde --test zz_seed_demo 2>&1 | grep -E "^test result" | grep -c "FAILED")
git apply -R $OUT/patch.diff
echo "== demo without patch (must pass)"
cargo test -j 3 --offline --features partial,value,serde --test zz_seed_demo 2>&1 | grep -E "^test result|error(\[|:)" | head -4
D0=$(cargo test -j 3 --offline --features partial,value,serde --test zz_seed_demo 2>&1 | grep -E "^test result" | grep -c "ok\.")
rm -f tests/zz_seed_demo.rs
echo "demo_fails_with_patch=$D1 demo_passes_without=$D0"
if [ "$D1" -ge 1 ] && [ "$D0" -ge 1 ]; then
  mkdir -p $DST && cp $OUT/patch.diff $DST/patch.diff && cp $OUT/demo.rs $DST/demo.rs && cp $OUT/meta.json $DST/agent_meta.json
  echo "CONFIRMED -> $DST"
else
  echo "NOT CONFIRMED"
fi
