#!/usr/bin/env python3
"""Regenerates /verif/MANIFEST.json from the table below (kept in one place so it stays consistent)."""
import json, os, subprocess
V = os.path.dirname(os.path.dirname(os.path.abspath(__file__)))
props = [json.loads(l) for l in open(os.path.join(V, "properties.jsonl"))]

S_NOTE = ("Trusted: rustc; z3 4.8.12 (every sat answer is replayed concretely on the real code at T = u16, cvc5 as second opinion in replay); "
          "the Sym proxy type, SMT emitter and AC interpretation (bvadd/bvmul/bvxor for flagged operators); parametricity of the generic library in T; "
          "the tree renderer as reference semantics of the documented grammar. Bounds (tables, tree sizes, renderings, strides) are listed in the evidence.")
K_NOTE = ("Trusted: Kani 0.68 MIR->GOTO translation, CBMC 6.11, cadical; unwinding assertions on; alloc::fmt::format stubbed (messages are not the subject); "
          "harness-side oracles transcribed from the rustdoc.")

CHECKS = {
 "C01": dict(engine="S+K", technique="symbolic execution of the real generic parser/evaluator at a term-valued data type; z3 (QF_UFBV) decides impl = reference tree for all values, per table x tree x rendering",
    text="Bounded model checking of the real FlatEx code path: for every operator table of a 312-table family, every expression tree up to the tier bound and every rendering, the value term produced by the real parser+evaluator equals the tree for ALL variable and literal values (solver verdict), flagged operators interpreted as genuinely AC. Tests sample a few hundred f64 strings on one table; this covers all values and all small structures, incl. equal priorities, flags, >64-operand chains.", ref="4/C01"),
 "C02": dict(engine="S", technique="same engine; five folding pipelines (parse, parse_wo_compile, recompile, compile twice, DeepEx::parse) each decided equal to the reference tree with literals as free constants; raw-string differential parse vs parse_wo_compile",
    text="Constant folding is decided invisible for all literal and variable values within the bounded family of tables/trees; literals are free constants so any literal combined with the wrong neighbour is a counterexample.", ref="4/C02"),
 "C03": dict(engine="S", technique="same engine; flat vs deep vs every conversion history up to length 4 decided equal (UFBV) on tree programs and on raw token sequences both parsers accept; operator listings asserted per path",
    text="Interchangeability of the two forms decided for all values on bounded trees and on all raw token strings up to length 6/7 over an 11-token alphabet.", ref="4/C03"),
 "C04": dict(engine="S", technique="same engine; reference binds variables BY NAME, implementation by sorted position; solver decides equality; arity errors asserted per path",
    text="Variable discovery/order/binding decided for all values over six name pools (ASCII, Greek, braced arbitrary text, 20 names) and seeded occurrence patterns; arity errors for every slice length 0..n+3.", ref="4/C04"),
 "C05": dict(engine="S", technique="real FlatEx/DeepEx::partial executed at a term-valued data type over the transplanted default table; is_zero/is_one shortcuts forked by a solver-backed decision oracle; z3 (QF_UFNRA with ground-instantiated laws) decides derivative term = dual-number reference under the domain conjunct",
    text="For every tree of a ~1300-tree pool over + - * / ^, unary +/- and the 18 differentiable functions, every variable and four forms (flat, deep, deep>flat, flat>deep), the derivative expression returned by the real code is decided equal to the textbook derivative at ALL points of the interior of the domain (reals, elementary functions uninterpreted); operators without a rule must give Err. Tests check a handful of expressions at a handful of points by finite differences.", ref="4/C05"),
 "C06": dict(engine="S+K", technique="Kani/CBMC decides the tokenizer's look-ahead helper next_char_boundary (characters of every UTF-8 length behind an operator name) and is_numeric_text panic-free for all inputs within their bound; exhaustive path enumeration at T = Sym under catch_unwind over tree programs and raw token sequences through every pipeline incl. follow-up calls; concrete entry points executed on enumerated inputs",
    text="Panic-freedom of every explored path (a path covers all values). The tokenizer on arbitrary Unicode and the stack-depth claim are outside (stated).", ref="4/C06"),
 "C07": dict(engine="S", technique="exhaustive enumeration of raw token sequences and of single-point damages of well-formed texts through the real parsers at T = Sym; acceptance compared with the statement-level well-formedness predicate",
    text="Every malformed text in the enumerated space is rejected by all three parser entry points; acceptance is value-independent so this part is path enumeration inside the symbolic executor, not a solver query (said so in the evidence).", ref="4/C07"),
 "C08": dict(engine="S", technique="same engine; every subset of alphabetic binary nodes rendered in call form at every position, nesting depth up to 3/4; solver decides value = tree",
    text="Call notation decided equivalent to ((a) op (b)) for all values on all bounded trees/call masks/renderings.", ref="4/C08"),
 "C09": dict(engine="S+K", technique="same calculus engine; index sequences of length 0..3/4 incl. out-of-range entries; identities (iter = sequential, nth = repeated, order 0 = identity, mixed partials commute) decided in QF_UFNRA; variable lists and Err outcomes asserted per path",
    text="Differentiation bookkeeping decided for a 12-expression pool x every index sequence up to the bound, flat and deep.", ref="4/C09"),
 "C10": dict(engine="S", technique="same calculus engine; every (start, step[, step]) history of operate_unary/operate_binary/helpers/overloaded + - * / pow neg over a 12-expression pool; value = operator applied to operand values decided in QF_UFNRA under the domain of the unsimplified form; neutral-element shortcuts forked by the oracle (symbolic-literal pass)",
    text="Operator application decided a homomorphism (value and sorted-union variable list) for all assignments on ~16000 histories over a pool with overlapping/disjoint variables, constants 0/1, and folded constants; unknown names are errors.", ref="4/C10"),
 "C11": dict(engine="S", technique="same engine; FlatEx::subs / DeepEx::subs vs simultaneous tree substitution, solver-decided per (expression, map)",
    text="Substitution decided simultaneous and variable lists exact for an 11-expression x 8-replacement pool over 35/104 tables.", ref="4/C11"),
 "C12": dict(engine="S", technique="same engine; parse(unparse(e)) and serde_json round trips decided equal to the tree; unparse identity by string equality",
    text="Round trips decided value-preserving for all values on the bounded tree family (deep, flat-from-deep, serde).", ref="4/C12"),
 "C13": dict(engine="S+K", technique="Kani/CBMC decides is_numeric_text (all ASCII strings <= 5 bytes vs the documented literal rule) and is_operator_binary (every capability x every left token) for all inputs; lexical families (extended/truncated operator names, longest match, signs, literals, braces, Greek) are pushed through the real tokenizer at T = Sym and compared with expected trees",
    text="The two lexing kernels are model-checked for every input within their bound; everything that sits on regex/lazy_static (exact-match look-ahead, longest match, braces) cannot be encoded by the installed engines and is covered as enumerated lexical families through the real tokenizer (said so in the evidence).", ref="4/C13"),
 "C14": dict(engine="S+K", technique="Kani/CBMC: one step of the word tracker from an ARBITRARY state vs a boolean-vector model, eval_binary for all orders of 7 operands as one symbolic permutation (word and slice tracker); thorough: 2- and 3-word slice tracker steps, 9 operands. Engine S: long chains 9..257 operands, boundary-island chains of 200 operands, exhaustive 6-operand chains through the public API",
    text="Operand tracking is decided for every tracker state/index (inductive single step) and every application order up to 7/9 operands by CBMC; the size hand-over at 64 operands and mixed orders beyond it are decided through the public API by engine S for all values.", ref="4/C14"),
 "C15": dict(engine="S", technique="same engine; eval_vec/eval_iter terms decided equal to the reference; clone counter and moved-out-placeholder flag of the proxy type asserted per path",
    text="Consuming evaluation decided equal to the reference for all values; exactly-once variables are never cloned; the placeholder never reaches an operator.", ref="4/C15"),
 "C16": dict(engine="S+K", technique="Kani/CBMC operator cells of Val<i32,f64>: per operator and role, concrete operand kinds x fully symbolic payloads (multiplicative Int kernels over boundary values and [-9,9], exponents [-2,66]) vs the typed rule table transcribed from the rustdoc; quick tier: direct kernels (the private operator functions of value.rs that the table entries name, association read from the source of make() on every run, reached through verif_hooks::val) for every operator that names a function, all operand-kind groups, libm primitives and sqrt replaced by tagged stubs so that the cell proves which primitive is applied to which argument; thorough tier: table cells (operator looked up by a natively computed index, repr() asserted). Engine S: precedence semantics of the real table (metadata transplant) decided for all values",
    text="Typing/error rules of the value operators are model-checked per cell (quick: 110 direct kernels incl. the six comparisons over the real PartialEq/PartialOrd + table cells of / < == if else + casts <i32,f32>; thorough: all 260 harnesses incl. arrays and the second/third instantiation for casts); expression-level precedence over the real table is decided by engine S.", ref="4/C16"),
 "C17": dict(engine="S+K", technique="Kani/CBMC on the same operator cells: every Rust-level panic (overflow assertion, unwrap on None, index out of bounds) and unwinding assertion is a proof obligation; counterexamples are replayed natively with `cargo kani playback`. Complement (path-level, no solver): the catalogue of the property's own quantifier, every operator of the real table on every (ordered pair of) ~75 boundary operands incl. arrays of length 0..5, at evaluation time and through parse-time folding, under catch_unwind in a build with overflow checks",
    text="Totality of the value operators for ALL payloads of every operand kind within the harness bounds; the same function pointers are called by parse-time folding. Quick: direct kernels of every named operator function (all operand-kind groups), table cells of / < == if else, casts <i32,f32>; thorough: all cells.", ref="4/C17",
    note=K_NOTE),
 "C18": dict(engine="S+K", technique="calculus engine over the transplanted ValOpsFactory table with if/else/comparisons interpreted in SMT (ite over reals with a distinguished none value); first and second order (mixed) derivatives decided equal to ite(c, f', g'); Kani: From<f32>/From<u8> for Val (the constants of the derivative rules) for every f32/u8 in the quick tier, cells for if/else/comparisons/to_float in the thorough tier. Complement (path-level, no solver): the real parse_val::<i32,f64>.partial.eval on integer polynomials at every Int/Float kind pattern vs an exact rational dual-number evaluation (the kinds of the rule constants decide whether Int ^ constant is defined)",
    text="Branch-wise differentiation of piecewise expressions decided for all points on a pool of ~900 piecewise expressions (nested, inside arithmetic, parenthesised conditions), order 1 and 2, flat and deep.", ref="4/C18"),
 "C19": dict(engine="M+S+K", technique="MIR of FloatOpsFactory::make (nightly -Zunpretty=mir) translated entry by entry to SMT-LIB FloatingPoint terms; z3 decides body(a,b) = documented function for all a, b at f64 and f32; counterexamples replayed through the real function pointers",
    text="Every entry of the default table (34 operators in both roles, 6 constants) is decided to compute the function its name documents, with the documented argument order, for ALL float operands (IEEE + - * / interpreted bit-precisely, num::Float methods as uninterpreted functions named after the method). A body that is not a recognised single call is inconclusive, never a pass.", ref="4/C19",
    note="Trusted: rustc nightly's MIR printer, z3 4.8.12 FP theory, num::Float forwarding to the std primitive (uninterpreted here), the name->primitive table transcribed from the rustdoc of FloatOpsFactory. sat answers are replayed natively through Operator::bin()/unary() of the real f32/f64 tables."),
}

def main():
    checks = []
    for pid, c in CHECKS.items():
        checks.append({
            "property_id": pid,
            "quick_cmd": f"./check {pid} --tier quick",
            "thorough_cmd": f"./check {pid} --tier thorough",
            "evidence_file": f"/verif/evidence/{pid}.json",
            "replay_cmd_template": f"./check {pid} --replay {{path}}",
            "engine": c["engine"],
            "level_claimed": {"category": "model_checking", "text": c["text"], "design_ref": c["ref"]},
            "level_note": c.get("note", (S_NOTE if "S" in c["engine"] else "") + (" " + K_NOTE if "K" in c["engine"] else "")).strip(),
            "technique": c["technique"],
        })
    claimed = set(CHECKS)
    NA = json.load(open(os.path.join(V, "tools", "not_applicable.json")))
    na = []
    for p in props:
        if p["id"] not in claimed:
            na.append({"property_id": p["id"], "reason": NA.get(p["id"], "check not built yet (work in progress)")})
    hooks_commits = []
    try:
        out = subprocess.run(["git", "-C", "/repo", "log", "--format=%H %s"], capture_output=True, text=True).stdout
        hooks_commits = [l.split()[0] for l in out.splitlines() if "verif_hooks" in l]
    except Exception:
        pass
    m = {
        "version": 1,
        "setup_cmd": "./tools/setup.sh",
        "hooks": {"guard": "cargo feature verif_hooks", "enable": "exmex = { path = \"/repo\", features = [\"verif_hooks\", ...] } in /verif/kani/Cargo.toml (engine S and M need no hooks)",
                  "baseline_off_cmd": "cd /repo && cargo test --workspace --no-fail-fast --offline", "source_commits": hooks_commits, "add_only": True},
        "engines": [
            {"name": "S", "path": "/verif/symex", "serves_properties": sorted(p for p, c in CHECKS.items() if "S" in c["engine"]), "kind_free_text": "proxy symbolic execution of the real generic library at T = Sym (term arena) + z3 -in; cvc5 second opinion in replay"},
            {"name": "K", "path": "/verif/kani", "serves_properties": sorted(p for p, c in CHECKS.items() if "K" in c["engine"]), "kind_free_text": "Kani 0.68 / CBMC 6.11 proof harnesses on leaf kernels and operator cells"},
            {"name": "M", "path": "/verif/lib/mir_engine.py", "serves_properties": sorted(p for p, c in CHECKS.items() if "M" in c["engine"]), "kind_free_text": "nightly MIR dump of FloatOpsFactory::make translated to SMT-LIB FloatingPoint; z3 decides body = documented function"},
        ],
        "checks": checks,
        "notes": "All checks: ./check <ID> [--tier quick|thorough] [--replay FILE]; exit 0 held / 1 VIOLATION (replayed) / 2 inconclusive. See DESIGN.md.",
        "not_applicable": na,
    }
    json.dump(m, open(os.path.join(V, "MANIFEST.json"), "w"), indent=1)
    print("claimed", sorted(claimed), "not_applicable", [x["property_id"] for x in na])

main()
