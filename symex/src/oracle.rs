//! Decision oracle behind `Sym: PartialEq`. Data-dependent branches of the library
//! (`is_zero`, `is_one` shortcuts) compare `T` values; for symbolic values the solver says which
//! outcomes are feasible under the path condition, and every feasible outcome is explored by
//! re-execution with a forced decision prefix (depth-first).
use crate::smt::{self, Solver, Theory, Verdict};
use crate::sym::{self, Id, Node};
use std::cell::RefCell;

#[derive(Default)]
pub struct OracleState {
    pub enabled: bool,
    pub forced: Vec<bool>,
    pub trace: Vec<(Id, Id, bool)>,
    pub pending: Vec<Vec<bool>>,
    pub budget_exceeded: bool,
    pub infeasible_path: bool,
    pub unexpected_eq: u64,
    pub max_depth: usize,
    pub solver_decisions: u64,
}

thread_local! {
    pub static ORACLE: RefCell<OracleState> = RefCell::new(OracleState { max_depth: 24, ..Default::default() });
    pub static SOLVER: RefCell<Option<Solver>> = const { RefCell::new(None) };
    pub static SOLVER2: RefCell<Option<Solver>> = const { RefCell::new(None) };
    pub static THEORY: RefCell<Theory> = const { RefCell::new(Theory::Ufbv) };
}

pub fn theory() -> Theory {
    THEORY.with(|t| *t.borrow())
}
pub fn set_theory(t: Theory) {
    THEORY.with(|c| *c.borrow_mut() = t);
}
pub fn init_solver(timeout_ms: u64) {
    init_solver_named("z3", timeout_ms)
}
pub fn init_solver_named(which: &str, timeout_ms: u64) {
    SOLVER.with(|s| {
        if s.borrow().is_none() {
            *s.borrow_mut() = Some(Solver::spawn(which, timeout_ms));
        }
    });
}
pub fn init_solver2(which: &str, timeout_ms: u64) {
    SOLVER2.with(|s| {
        if s.borrow().is_none() {
            *s.borrow_mut() = Some(Solver::spawn(which, timeout_ms));
        }
    });
}
pub fn with_solver<R>(f: impl FnOnce(&mut Solver) -> R) -> R {
    SOLVER.with(|s| f(s.borrow_mut().as_mut().expect("solver not initialised")))
}
pub fn with_solver2<R>(f: impl FnOnce(&mut Solver) -> R) -> R {
    SOLVER2.with(|s| f(s.borrow_mut().as_mut().expect("solver2 not initialised")))
}
pub fn drop_solvers() {
    SOLVER.with(|s| *s.borrow_mut() = None);
    SOLVER2.with(|s| *s.borrow_mut() = None);
}

/// path condition atoms as SMT assertions
pub fn pc_asserts(trace: &[(Id, Id, bool)]) -> Vec<String> {
    trace
        .iter()
        .map(|(a, b, eq)| if *eq { format!("(= n{a} n{b})") } else { format!("(distinct n{a} n{b})") })
        .collect()
}

pub fn decide_eq(a: Id, b: Id) -> bool {
    if a == b {
        return true;
    }
    if let (Node::Rat(n1, d1), Node::Rat(n2, d2)) = (sym::node(a), sym::node(b)) {
        return n1 == n2 && d1 == d2;
    }
    let enabled = ORACLE.with(|o| o.borrow().enabled);
    if !enabled {
        ORACLE.with(|o| o.borrow_mut().unexpected_eq += 1);
        return false;
    }
    // forced prefix?
    let forced = ORACLE.with(|o| {
        let o = o.borrow();
        let idx = o.trace.len();
        o.forced.get(idx).copied()
    });
    if let Some(out) = forced {
        ORACLE.with(|o| o.borrow_mut().trace.push((a, b, out)));
        return out;
    }
    // the same comparison again on this path: same answer
    if let Some(out) = ORACLE.with(|o| {
        o.borrow().trace.iter().find(|(x, y, _)| (*x == a && *y == b) || (*x == b && *y == a)).map(|t| t.2)
    }) {
        ORACLE.with(|o| o.borrow_mut().trace.push((a, b, out)));
        return out;
    }
    let (trace, depth_ok) = ORACLE.with(|o| {
        let o = o.borrow();
        (o.trace.clone(), o.trace.len() < o.max_depth)
    });
    if !depth_ok {
        ORACLE.with(|o| {
            let mut o = o.borrow_mut();
            o.budget_exceeded = true;
            o.trace.push((a, b, false));
        });
        return false;
    }
    let th = theory();
    let mut roots: Vec<Id> = vec![a, b];
    for (x, y, _) in &trace {
        roots.push(*x);
        roots.push(*y);
    }
    let em = smt::emit(&roots, th);
    let mut base = em.script.clone();
    for l in &em.lemmas {
        base.push_str(&format!("(assert {l})\n"));
    }
    for p in pc_asserts(&trace) {
        base.push_str(&format!("(assert {p})\n"));
    }
    let (v_eq, v_ne) = with_solver(|s| {
        let (v1, _) = s.check(&format!("{base}(assert (= n{a} n{b}))\n(check-sat)\n"));
        let (v2, _) = s.check(&format!("{base}(assert (distinct n{a} n{b}))\n(check-sat)\n"));
        (v1, v2)
    });
    let eq_feasible = v_eq != Verdict::Unsat;
    let ne_feasible = v_ne != Verdict::Unsat;
    ORACLE.with(|o| {
        let mut o = o.borrow_mut();
        o.solver_decisions += 1;
        let out = match (eq_feasible, ne_feasible) {
            (true, false) => true,
            (false, true) => false,
            (true, true) => {
                let mut alt: Vec<bool> = o.trace.iter().map(|t| t.2).collect();
                alt.push(true);
                o.pending.push(alt);
                false
            }
            (false, false) => {
                o.infeasible_path = true;
                false
            }
        };
        o.trace.push((a, b, out));
        out
    })
}

pub struct PathResult<R> {
    pub trace: Vec<(Id, Id, bool)>,
    pub result: R,
    pub budget_exceeded: bool,
    pub infeasible: bool,
}

/// Runs `f` once per feasible decision vector (depth-first). `f` is called with a fresh arena and
/// must do all solver checks on its result itself (ids die with the arena); it gets the trace via
/// `current_trace()`.
pub fn explore<R>(max_paths: usize, mut f: impl FnMut() -> R) -> (Vec<PathResult<R>>, bool) {
    let mut out = vec![];
    let mut todo: Vec<Vec<bool>> = vec![vec![]];
    let mut truncated = false;
    while let Some(prefix) = todo.pop() {
        if out.len() >= max_paths {
            truncated = true;
            break;
        }
        sym::reset_arena();
        ORACLE.with(|o| {
            let mut o = o.borrow_mut();
            o.enabled = true;
            o.forced = prefix;
            o.trace.clear();
            o.pending.clear();
            o.budget_exceeded = false;
            o.infeasible_path = false;
        });
        let r = f();
        let (trace, pend, be, inf) = ORACLE.with(|o| {
            let mut o = o.borrow_mut();
            o.enabled = false;
            (std::mem::take(&mut o.trace), std::mem::take(&mut o.pending), o.budget_exceeded, o.infeasible_path)
        });
        todo.extend(pend);
        out.push(PathResult { trace, result: r, budget_exceeded: be, infeasible: inf });
    }
    (out, truncated)
}

pub fn current_trace() -> Vec<(Id, Id, bool)> {
    ORACLE.with(|o| o.borrow().trace.clone())
}
pub fn take_unexpected_eq() -> u64 {
    ORACLE.with(|o| std::mem::take(&mut o.borrow_mut().unexpected_eq))
}
