//! Calculus part of engine S (C05, C09, C10 and the derived-expression parts of C04, C12, C15):
//! the real `partial`, `operate_*`, `+ - * /`, `pow` at `T = Sym` over the transplanted default
//! table; data-dependent shortcuts (`is_zero`, `is_one`) are forked by the decision oracle; z3
//! decides `domain /\ path condition => implementation = reference` in QF_UFNRA.
use crate::extra::{default_float_table, empty_out, mk_finding};
use crate::oracle::{self, explore, pc_asserts, with_solver};
use crate::pipelines::{Deep, Flat};
use crate::props::{finish, Part};
use crate::smt::{self, Theory, Verdict};
use crate::sweep::{show_term, Finding, Stats};
use crate::sym::{self, Id, Sym, BIN_FNS, UN_FNS};
use crate::table::{self, SymOps, Table};
use crate::tree::{render, Style, Tree};
use crate::Args;
use exmex::prelude::*;
use serde_json::{json, Value};
use std::collections::BTreeMap;
use std::panic::{catch_unwind, AssertUnwindSafe};
use std::time::Instant;

thread_local! {
    /// (obligations passed to the second solver, decided there)
    pub static FALLBACK: std::cell::RefCell<(u64, u64)> = const { std::cell::RefCell::new((0, 0)) };
}

pub struct Ops {
    pub add: u16,
    pub sub: u16,
    pub mul: u16,
    pub div: u16,
    pub pow: u16,
}

fn k(r: &str) -> u16 {
    table::idx_of(r).unwrap_or_else(|| panic!("no operator {r}"))
}
pub fn ops() -> Ops {
    Ops { add: k("+"), sub: k("-"), mul: k("*"), div: k("/"), pow: k("^") }
}

fn b(kk: u16, a: &Sym, c: &Sym) -> Sym {
    BIN_FNS[kk as usize](Sym(a.0), Sym(c.0))
}
fn u(r: &str, a: &Sym) -> Sym {
    UN_FNS[k(r) as usize](Sym(a.0))
}
fn rat(n: i64) -> Sym {
    Sym::rat(n, 1)
}

/// Textbook forward-mode derivative of the tree w.r.t. `var`: (value, derivative), `None` = identically zero.
pub fn dual(t: &Tree, var: &str) -> Result<(Sym, Option<Sym>), String> {
    let o = ops();
    Ok(match t {
        Tree::Lit(_) | Tree::Konst(_) => (t.to_sym(), None),
        Tree::Var(n) => (t.to_sym(), if n == var { Some(rat(1)) } else { None }),
        Tree::Paren(a) => dual(a, var)?,
        Tree::Un(kk, a) => {
            let (v, d) = dual(a, var)?;
            let name = table::repr_of(*kk);
            let val = UN_FNS[*kk as usize](Sym(v.0));
            let der = match d {
                None => None,
                Some(d) => Some(match name.as_str() {
                    "+" => d,
                    "-" => u("-", &d),
                    "sin" => b(o.mul, &u("cos", &v), &d),
                    "cos" => b(o.mul, &u("-", &u("sin", &v)), &d),
                    "tan" => b(o.div, &d, &b(o.mul, &u("cos", &v), &u("cos", &v))),
                    "asin" => b(o.div, &d, &u("sqrt", &b(o.sub, &rat(1), &b(o.mul, &v, &v)))),
                    "acos" => u("-", &b(o.div, &d, &u("sqrt", &b(o.sub, &rat(1), &b(o.mul, &v, &v))))),
                    "atan" => b(o.div, &d, &b(o.add, &rat(1), &b(o.mul, &v, &v))),
                    "sinh" => b(o.mul, &u("cosh", &v), &d),
                    "cosh" => b(o.mul, &u("sinh", &v), &d),
                    "tanh" => b(o.mul, &b(o.sub, &rat(1), &b(o.mul, &u("tanh", &v), &u("tanh", &v))), &d),
                    "asinh" => b(o.div, &d, &u("sqrt", &b(o.add, &b(o.mul, &v, &v), &rat(1)))),
                    "acosh" => b(o.div, &d, &b(o.mul, &u("sqrt", &b(o.sub, &v, &rat(1))), &u("sqrt", &b(o.add, &v, &rat(1))))),
                    "atanh" => b(o.div, &d, &b(o.sub, &rat(1), &b(o.mul, &v, &v))),
                    "exp" => b(o.mul, &u("exp", &v), &d),
                    "ln" | "log" => b(o.div, &d, &v),
                    "log2" => b(o.div, &d, &b(o.mul, &v, &u("ln", &rat(2)))),
                    "log10" => b(o.div, &d, &b(o.mul, &v, &u("ln", &rat(10)))),
                    "sqrt" => b(o.div, &d, &b(o.mul, &rat(2), &u("sqrt", &v))),
                    other => return Err(format!("no derivative rule for {other}")),
                }),
            };
            (val, der)
        }
        Tree::Bin(kk, l, r) | Tree::Call(kk, l, r) => {
            let (lv, ld) = dual(l, var)?;
            let (rv, rd) = dual(r, var)?;
            let name = table::repr_of(*kk);
            let val = BIN_FNS[*kk as usize](Sym(lv.0), Sym(rv.0));
            let plus = |x: Option<Sym>, y: Option<Sym>| match (x, y) {
                (None, None) => None,
                (Some(x), None) => Some(x),
                (None, Some(y)) => Some(y),
                (Some(x), Some(y)) => Some(b(o.add, &x, &y)),
            };
            let der = match name.as_str() {
                "+" => plus(ld, rd),
                "-" => match (ld, rd) {
                    (None, None) => None,
                    (Some(x), None) => Some(x),
                    (None, Some(y)) => Some(u("-", &y)),
                    (Some(x), Some(y)) => Some(b(o.sub, &x, &y)),
                },
                "*" => plus(ld.map(|d| b(o.mul, &d, &rv)), rd.map(|d| b(o.mul, &lv, &d))),
                "/" => {
                    let num = match (ld, rd) {
                        (None, None) => None,
                        (Some(x), None) => Some(b(o.mul, &x, &rv)),
                        (None, Some(y)) => Some(u("-", &b(o.mul, &lv, &y))),
                        (Some(x), Some(y)) => Some(b(o.sub, &b(o.mul, &x, &rv), &b(o.mul, &lv, &y))),
                    };
                    num.map(|n| b(o.div, &n, &b(o.mul, &rv, &rv)))
                }
                "^" => {
                    // d(f^g) = g f^(g-1) f' + f^g ln(f) g'
                    let t1 = ld.map(|d| b(o.mul, &b(o.mul, &rv, &b(o.pow, &lv, &b(o.sub, &rv, &rat(1)))), &d));
                    let t2 = rd.map(|d| b(o.mul, &b(o.mul, &val, &u("ln", &lv)), &d));
                    plus(t1, t2)
                }
                // comparisons keep their value as 'derivative'; if/else differentiate per operand
                "<" | "<=" | ">" | ">=" | "==" | "!=" => Some(Sym(val.0)),
                "if" | "else" => {
                    let x = ld.unwrap_or_else(|| rat(0));
                    let y = rd.unwrap_or_else(|| rat(0));
                    Some(BIN_FNS[*kk as usize](x, y))
                }
                other => return Err(format!("no derivative rule for {other}")),
            };
            (val, der)
        }
    })
}

/// Symbolic derivative as a tree (same textbook rules as `dual`), `None` = identically zero.
/// Used to build references for higher-order derivatives: d2 = dual(dtree(t, x), y).
pub fn dtree(t: &Tree, var: &str) -> Result<Option<Tree>, String> {
    let o = ops();
    let r1 = || Tree::lit("1");
    let mul = |a: Tree, c: Tree| Tree::bin(o.mul, a, c);
    let div = |a: Tree, c: Tree| Tree::bin(o.div, a, c);
    let add = |a: Tree, c: Tree| Tree::bin(o.add, a, c);
    let sub = |a: Tree, c: Tree| Tree::bin(o.sub, a, c);
    let un = |r: &str, a: Tree| Tree::un(k(r), a);
    Ok(match t {
        Tree::Lit(_) | Tree::Konst(_) => None,
        Tree::Var(n) => {
            if n == var {
                Some(r1())
            } else {
                None
            }
        }
        Tree::Paren(a) => dtree(a, var)?,
        Tree::Un(kk, a) => {
            let name = table::repr_of(*kk);
            let v = (**a).clone();
            match dtree(a, var)? {
                None => None,
                Some(d) => Some(match name.as_str() {
                    "+" => d,
                    "-" => un("-", d),
                    "sin" => mul(un("cos", v), d),
                    "cos" => mul(un("-", un("sin", v)), d),
                    "tan" => div(d, mul(un("cos", v.clone()), un("cos", v))),
                    "asin" => div(d, un("sqrt", sub(r1(), mul(v.clone(), v)))),
                    "acos" => un("-", div(d, un("sqrt", sub(r1(), mul(v.clone(), v))))),
                    "atan" => div(d, add(r1(), mul(v.clone(), v))),
                    "sinh" => mul(un("cosh", v), d),
                    "cosh" => mul(un("sinh", v), d),
                    "tanh" => mul(sub(r1(), mul(un("tanh", v.clone()), un("tanh", v))), d),
                    "asinh" => div(d, un("sqrt", add(mul(v.clone(), v), r1()))),
                    "acosh" => div(d, mul(un("sqrt", sub(v.clone(), r1())), un("sqrt", add(v, r1())))),
                    "atanh" => div(d, sub(r1(), mul(v.clone(), v))),
                    "exp" => mul(un("exp", v), d),
                    "ln" | "log" => div(d, v),
                    "log2" => div(d, mul(v, un("ln", Tree::lit("2")))),
                    "log10" => div(d, mul(v, un("ln", Tree::lit("10")))),
                    "sqrt" => div(d, mul(Tree::lit("2"), un("sqrt", v))),
                    other => return Err(format!("no derivative rule for {other}")),
                }),
            }
        }
        Tree::Bin(kk, l, r) | Tree::Call(kk, l, r) => {
            let name = table::repr_of(*kk);
            let (lv, rv) = ((**l).clone(), (**r).clone());
            let (ld, rd) = (dtree(l, var)?, dtree(r, var)?);
            let plus = |x: Option<Tree>, y: Option<Tree>| match (x, y) {
                (None, None) => None,
                (Some(x), None) => Some(x),
                (None, Some(y)) => Some(y),
                (Some(x), Some(y)) => Some(Tree::bin(o.add, x, y)),
            };
            match name.as_str() {
                "+" => plus(ld, rd),
                "-" => match (ld, rd) {
                    (None, None) => None,
                    (Some(x), None) => Some(x),
                    (None, Some(y)) => Some(un("-", y)),
                    (Some(x), Some(y)) => Some(sub(x, y)),
                },
                "*" => plus(ld.map(|d| mul(d, rv.clone())), rd.map(|d| mul(lv.clone(), d))),
                "/" => {
                    let num = match (ld, rd) {
                        (None, None) => None,
                        (Some(x), None) => Some(mul(x, rv.clone())),
                        (None, Some(y)) => Some(un("-", mul(lv.clone(), y))),
                        (Some(x), Some(y)) => Some(sub(mul(x, rv.clone()), mul(lv.clone(), y))),
                    };
                    num.map(|n| div(n, mul(rv.clone(), rv.clone())))
                }
                "^" => {
                    let t1 = ld.map(|d| mul(mul(rv.clone(), Tree::bin(o.pow, lv.clone(), sub(rv.clone(), r1()))), d));
                    let t2 = rd.map(|d| mul(mul(t.clone(), un("ln", lv.clone())), d));
                    plus(t1, t2)
                }
                "<" | "<=" | ">" | ">=" | "==" | "!=" => Some(t.clone()),
                "if" | "else" => {
                    let x = ld.unwrap_or_else(|| Tree::lit("0"));
                    let y = rd.unwrap_or_else(|| Tree::lit("0"));
                    Some(Tree::bin(*kk, x, y))
                }
                other => return Err(format!("no derivative rule for {other}")),
            }
        }
    })
}

/// decide `domain(ref side) /\ lemmas /\ pc => imp = rf`
pub fn decide_nra(imp: Id, rf: Id, domain_roots: &[Id], want_model: bool) -> (Verdict, BTreeMap<String, String>) {
    let trace = oracle::current_trace();
    let mut roots = vec![imp, rf];
    roots.extend_from_slice(domain_roots);
    for (x, y, _) in &trace {
        roots.push(*x);
        roots.push(*y);
    }
    let em = smt::emit(&roots, Theory::Nra);
    let mut dr = vec![rf];
    dr.extend_from_slice(domain_roots);
    let em_ref = smt::emit(&dr, Theory::Nra);
    let mut s = em.script.clone();
    for l in &em.lemmas {
        s.push_str(&format!("(assert {l})\n"));
    }
    for d in &em_ref.domain {
        s.push_str(&format!("(assert {d})\n"));
    }
    for p in pc_asserts(&trace) {
        s.push_str(&format!("(assert {p})\n"));
    }
    s.push_str(&format!("(assert (distinct n{imp} n{rf}))\n(check-sat)\n"));
    let (mut v, _) = with_solver(|sol| sol.check(&s));
    if v == Verdict::Inconclusive {
        // second solver for the obligations the first one gives up on
        oracle::init_solver2("z3", 20_000);
        let (v2, _) = oracle::with_solver2(|sol| sol.check(&s));
        FALLBACK.with(|f| {
            let mut f = f.borrow_mut();
            f.0 += 1;
            if v2 != Verdict::Inconclusive {
                f.1 += 1;
            }
        });
        v = v2;
    }
    let mut model = BTreeMap::new();
    if v == Verdict::Sat && want_model {
        let s2 = format!("{s}(get-value ({}))\n", em.free_consts.join(" "));
        let (v2, rest) = with_solver(|sol| sol.check(&s2));
        if v2 == Verdict::Sat {
            model = smt::parse_get_value(&rest);
        }
    }
    (v, model)
}

// ---------------------------------------------------------------------------------------------
// expression pools
// ---------------------------------------------------------------------------------------------

pub const DIFF_FUNCS: [&str; 18] = ["sqrt", "ln", "log", "log2", "log10", "exp", "sin", "cos", "tan", "asin", "acos", "atan", "sinh", "cosh", "tanh", "asinh", "acosh", "atanh"];
pub const NO_RULE_UNARY: [&str; 8] = ["abs", "signum", "floor", "ceil", "round", "trunc", "fract", "cbrt"];
pub const NO_RULE_BINARY: [&str; 3] = ["atan2", "min", "max"];

fn v(s: &str) -> Tree {
    Tree::var(s)
}
fn l(s: &str) -> Tree {
    Tree::lit(s)
}

/// Differentiable trees: small arithmetic skeletons with functions applied at several positions.
pub fn diff_pool(quick: bool, seed: u64) -> Vec<Tree> {
    let o = ops();
    let bins = [o.add, o.sub, o.mul, o.div, o.pow];
    let mut pool: Vec<Tree> = vec![];
    let leaves = [v("x"), v("y"), l("2"), l("3"), l("0.5"), l("1"), l("0")];
    // all binary combinations of two leaves
    for &kk in &bins {
        for a in &leaves {
            for c in &leaves {
                pool.push(Tree::bin(kk, a.clone(), c.clone()));
            }
        }
    }
    // three leaves, both shapes, variables and one literal
    let l3 = [v("x"), v("y"), l("2"), l("1")];
    let mut ctr = seed;
    for &k1 in &bins {
        for &k2 in &bins {
            for a in &l3 {
                for c in &l3 {
                    for d in &l3 {
                        ctr += 1;
                        if quick && ctr % 4 != 0 {
                            continue;
                        }
                        pool.push(Tree::bin(k1, Tree::bin(k2, a.clone(), c.clone()), d.clone()));
                        pool.push(Tree::bin(k1, a.clone(), Tree::bin(k2, c.clone(), d.clone())));
                    }
                }
            }
        }
    }
    // power towers, both groupings, with non-integer literals (an exponent identity such as (a^b)^c = a^(b*c) is
    // only valid for positive bases or integer exponents): never sampled away
    let lp = [v("x"), v("y"), l("2"), l("0.5"), l("1.5"), l("3")];
    for a in &lp {
        for c in &lp {
            for d in &lp {
                let nvars = [a, c, d].iter().filter(|t| matches!(t, Tree::Var(_))).count();
                if nvars == 0 {
                    continue;
                }
                pool.push(Tree::bin(o.pow, Tree::bin(o.pow, a.clone(), c.clone()), d.clone()));
                pool.push(Tree::bin(o.pow, a.clone(), Tree::bin(o.pow, c.clone(), d.clone())));
            }
        }
    }
    // every function over a leaf, over a binary, nested and inside arithmetic
    let fk: Vec<u16> = DIFF_FUNCS.iter().map(|f| k(f)).collect();
    let neg = o.sub;
    for &f in &fk {
        pool.push(Tree::un(f, v("x")));
        pool.push(Tree::un(f, Tree::bin(o.mul, v("x"), v("y"))));
        pool.push(Tree::un(f, Tree::bin(o.add, v("x"), l("2"))));
        pool.push(Tree::bin(o.mul, Tree::un(f, v("x")), v("y")));
        pool.push(Tree::bin(o.div, v("y"), Tree::un(f, v("x"))));
        pool.push(Tree::bin(o.pow, Tree::un(f, v("x")), l("2")));
        pool.push(Tree::un(neg, Tree::un(f, Tree::un(neg, v("x")))));
        // sign chains composed with the function in one unary operator: +f(x), -+f(x), +-f(x), y*+f(x*y), f(+x)
        let plus = o.add;
        pool.push(Tree::un(plus, Tree::un(f, v("x"))));
        pool.push(Tree::un(neg, Tree::un(plus, Tree::un(f, v("x")))));
        pool.push(Tree::un(plus, Tree::un(neg, Tree::un(f, Tree::bin(o.mul, v("x"), v("y"))))));
        pool.push(Tree::bin(o.mul, v("y"), Tree::un(plus, Tree::un(f, Tree::bin(o.mul, v("x"), v("y"))))));
        pool.push(Tree::un(f, Tree::un(plus, v("x"))));
        pool.push(Tree::un(plus, Tree::un(f, Tree::un(plus, Tree::un(f, v("x"))))));
        pool.push(Tree::un(f, Tree::bin(o.pow, v("x"), l("2"))));
        pool.push(Tree::bin(o.sub, Tree::un(f, Tree::bin(o.div, v("x"), v("y"))), Tree::un(f, v("y"))));
        for &g in &fk {
            ctr += 1;
            if quick && ctr % 3 != 0 {
                continue;
            }
            pool.push(Tree::un(f, Tree::un(g, v("x"))));
            if !quick {
                pool.push(Tree::bin(o.mul, Tree::un(f, v("x")), Tree::un(g, v("y"))));
                pool.push(Tree::un(f, Tree::bin(o.add, Tree::un(g, v("x")), v("y"))));
            }
        }
    }
    // three and four variables at one level (a derivative can collapse to a lone variable whose index must be re-based)
    let (a, x, y, z) = (v("a"), v("x"), v("y"), v("z"));
    for &k1 in &[o.mul, o.add, o.sub, o.div] {
        for &k2 in &[o.mul, o.add, o.div] {
            pool.push(Tree::bin(k2, Tree::bin(k1, a.clone(), x.clone()), y.clone()));
            pool.push(Tree::bin(k1, x.clone(), Tree::bin(k2, y.clone(), z.clone())));
            pool.push(Tree::bin(k2, Tree::bin(k1, Tree::bin(o.mul, a.clone(), x.clone()), y.clone()), z.clone()));
            pool.push(Tree::bin(k1, Tree::bin(o.mul, a.clone(), x.clone()), Tree::bin(k2, y.clone(), z.clone())));
        }
    }
    pool.push(Tree::bin(o.mul, Tree::bin(o.mul, Tree::bin(o.mul, v("b"), a.clone()), z.clone()), x.clone()));
    // classic test expressions
    pool.push(Tree::bin(o.div, Tree::un(k("sin"), v("x")), Tree::bin(o.pow, v("x"), l("2"))));
    pool.push(Tree::bin(o.add, Tree::bin(o.mul, v("x"), v("y")), Tree::un(k("ln"), Tree::bin(o.mul, v("x"), v("y")))));
    pool.push(Tree::bin(o.mul, Tree::un(k("sqrt"), v("x")), Tree::un(k("exp"), Tree::bin(o.mul, l("2"), v("x")))));
    pool.push(Tree::bin(o.pow, v("x"), v("y")));
    pool.push(Tree::bin(o.pow, Tree::un(k("cos"), v("y")), Tree::un(k("sin"), v("x"))));
    pool.push(Tree::un(neg, Tree::un(neg, Tree::un(k("+"), v("x")))));
    pool.push(Tree::bin(o.mul, Tree::bin(o.mul, v("x"), l("2")), v("x")));
    pool
}

pub struct CalcOut {
    pub stats: Stats,
    pub findings: Vec<Finding>,
    pub samples: Vec<Value>,
    pub paths: u64,
    pub forks: u64,
    pub truncated: u64,
}

fn new_out() -> CalcOut {
    CalcOut { stats: Stats::default(), findings: vec![], samples: vec![], paths: 0, forks: 0, truncated: 0 }
}

fn panic_msg_ref(p: &Box<dyn std::any::Any + Send>) -> String {
    p.downcast_ref::<String>().cloned().or_else(|| p.downcast_ref::<&str>().map(|s| s.to_string())).unwrap_or_else(|| "panic".into())
}
fn panic_msg(p: Box<dyn std::any::Any + Send>) -> String {
    if let Some(s) = p.downcast_ref::<String>() {
        s.clone()
    } else if let Some(s) = p.downcast_ref::<&str>() {
        s.to_string()
    } else {
        "panic".to_string()
    }
}

fn vals(names: &[String]) -> Vec<Sym> {
    names.iter().map(|n| Sym::var(n)).collect()
}

/// Runs `work` on `items` in parallel, each worker with its own solver and table.
pub fn par_calc<T: Sync>(args: &Args, tab: &Table, exact: bool, items: &[T], work: &(dyn Fn(&T, usize, &mut CalcOut) + Sync)) -> (CalcOut, f64) {
    let threads = args.threads();
    let quick = args.tier_quick();
    let t0 = Instant::now();
    let outs: Vec<CalcOut> = std::thread::scope(|sc| {
        let mut hs = vec![];
        for w in 0..threads {
            hs.push(std::thread::Builder::new().stack_size(1 << 30).spawn_scoped(sc, move || {
                // nonlinear real arithmetic: z3 5.1 (z3-new) answers obligations on which 4.8.12 gives up; 4.8.12 is the second opinion
                oracle::init_solver_named("z3-new", if quick { 10_000 } else { 60_000 });
                oracle::set_theory(Theory::Nra);
                sym::set_exact_lits(exact);
                table::set_table(tab);
                let mut out = new_out();
                for (i, it) in items.iter().enumerate() {
                    if i % threads == w {
                        work(it, i, &mut out);
                    }
                }
                let (q, s, u, inc, t) = with_solver(|s| (s.queries, s.sat, s.unsat, s.inconclusive, s.time.as_secs_f64()));
                out.stats.queries = q;
                out.stats.sat = s;
                out.stats.unsat = u;
                out.stats.inconclusive = inc;
                out.stats.solver_s = t;
                oracle::drop_solvers();
                sym::set_exact_lits(false);
                out
            }).unwrap());
        }
        hs.into_iter().map(|h| h.join().unwrap()).collect()
    });
    let mut total = new_out();
    for o in outs {
        total.stats.merge(&o.stats);
        total.findings.extend(o.findings);
        if total.samples.len() < 8 {
            total.samples.extend(o.samples.into_iter().take(2));
        }
        total.paths += o.paths;
        total.forks += o.forks;
        total.truncated += o.truncated;
    }
    (total, t0.elapsed().as_secs_f64())
}

fn to_part(name: &'static str, out: CalcOut, wall: f64, mut bounds: Value) -> Part {
    bounds["paths_explored"] = json!(out.paths);
    bounds["data_dependent_forks"] = json!(out.forks);
    bounds["truncated_explorations"] = json!(out.truncated);
    let mut so = empty_out();
    so.stats = out.stats;
    so.findings = out.findings;
    so.samples = out.samples;
    so.wall_s = wall;
    Part { name, out: so, bounds }
}

#[derive(Clone, Copy, PartialEq)]
pub enum Form {
    Flat,
    Deep,
    FlatFromDeep,
    DeepFromFlat,
}
impl Form {
    fn name(&self) -> &'static str {
        match self {
            Form::Flat => "flat.partial",
            Form::Deep => "deep.partial",
            Form::FlatFromDeep => "deep>flat.partial",
            Form::DeepFromFlat => "flat>deep.partial",
        }
    }
}

/// result of differentiating through the real API: (value term of derivative, var names, unparsed text, consuming-eval terms, reparse term)
pub struct DerOut {
    pub der: Id,
    pub names: Vec<String>,
    pub text: String,
    pub vec_term: Option<Id>,
    pub iter_term: Option<Id>,
    pub poison: bool,
    pub reparsed: Result<(Id, Vec<String>), String>,
}

pub fn differentiate(form: Form, text: &str, idxs: &[usize]) -> exmex::ExResult<DerOut> {
    match form {
        Form::Flat | Form::FlatFromDeep => {
            let e = if form == Form::Flat { Flat::<Sym, SymOps>::parse(text)? } else { Flat::<Sym, SymOps>::from_deepex(Deep::<Sym, SymOps>::parse(text)?)? };
            let d = e.partial_iter(idxs.iter().copied())?;
            let names = d.var_names().to_vec();
            let der = d.eval(&vals(&names))?.0;
            sym::ARENA.with(|a| a.borrow_mut().poison_reached_op = false);
            let vec_term = d.eval_vec(vals(&names)).ok().map(|s| s.0);
            let iter_term = d.eval_iter(vals(&names).into_iter()).ok().map(|s| s.0);
            let poison = sym::poison_reached_op();
            let printed = d.unparse().to_string();
            let reparsed = Flat::<Sym, SymOps>::parse(&printed).map_err(|e| e.msg().to_string()).and_then(|r| {
                let rn = r.var_names().to_vec();
                r.eval(&vals(&rn)).map(|s| (s.0, rn)).map_err(|e| e.msg().to_string())
            });
            Ok(DerOut { der, names, text: printed, vec_term, iter_term, poison, reparsed })
        }
        Form::Deep | Form::DeepFromFlat => {
            let e = if form == Form::Deep { Deep::<Sym, SymOps>::parse(text)? } else { Flat::<Sym, SymOps>::parse(text)?.to_deepex()? };
            let d = e.partial_iter(idxs.iter().copied())?;
            let names = d.var_names().to_vec();
            let der = d.eval(&vals(&names))?.0;
            let printed = d.unparse().to_string();
            let reparsed = Deep::<Sym, SymOps>::parse(&printed).map_err(|e| e.msg().to_string()).and_then(|r| {
                let rn = r.var_names().to_vec();
                r.eval(&vals(&rn)).map(|s| (s.0, rn)).map_err(|e| e.msg().to_string())
            });
            Ok(DerOut { der, names, text: printed, vec_term: None, iter_term: None, poison: false, reparsed })
        }
    }
}

fn push(out: &mut CalcOut, f: Finding) {
    out.stats.violations += 1;
    if out.findings.len() < 12 {
        out.findings.push(f);
    }
}

/// C05 core: for one tree, every variable, every form: derivative == dual-number reference.
/// Also asserts (C09) variable list, (C12) reparse of the printed derivative, (C15) consuming evaluation.
fn check_derivative(tab: &Table, t: &Tree, order: usize, forms: &[Form], out: &mut CalcOut, max_paths: usize) {
    let text = render(t, &Style::default());
    let names = t.var_names();
    out.stats.programs += 1;
    out.stats.note_text(order as u64, &text);
    // order 2: every ordered pair of variables (mixed partials included); reference = dual of the symbolic tree derivative
    let index_lists: Vec<Vec<usize>> = if order == 1 {
        (0..names.len()).map(|i| vec![i]).collect()
    } else {
        let mut v = vec![];
        for i in 0..names.len() {
            for j in 0..names.len() {
                v.push(vec![i, j]);
            }
        }
        v
    };
    for idxs in index_lists {
        let vi = *idxs.last().unwrap();
        for &form in forms {
            let (paths, truncated) = explore(max_paths, || {
                let r = catch_unwind(AssertUnwindSafe(|| differentiate(form, &text, &idxs)));
                // reference: dual numbers, `order` times w.r.t. the same variable is only supported for order 1;
                // higher orders are checked against sequential application (C09)
                let reference = if order == 1 {
                    dual(t, &names[vi])
                } else {
                    match dtree(t, &names[idxs[0]]) {
                        Err(e) => Err(e),
                        Ok(None) => Ok((rat(0), None)),
                        Ok(Some(d1)) => dual(&d1, &names[vi]),
                    }
                };
                let fval = t.to_sym().0;
                let mut res: Vec<(&'static str, String, String, String, BTreeMap<String, String>)> = vec![];
                let mut vcs = 0u64;
                let mut ident = 0u64;
                match (r, reference) {
                    (Err(p), _) => res.push(("panic", String::new(), String::new(), panic_msg(p), BTreeMap::new())),
                    (Ok(Err(e)), Ok(_)) => res.push(("derivative-error", String::new(), String::new(), format!("differentiable expression rejected: {}", e.msg()), BTreeMap::new())),
                    (Ok(Ok(_)), Err(why)) => res.push(("missing-error", String::new(), String::new(), format!("{why}, but partial returned an expression"), BTreeMap::new())),
                    (Ok(Err(_)), Err(_)) => {}
                    (Ok(Ok(d)), Ok((_, rd))) => {
                        if d.names != names {
                            res.push(("varnames", format!("{:?}", d.names), format!("{names:?}"), "derivative does not list the variables of its antiderivative".into(), BTreeMap::new()));
                        }
                        {
                            let rf = rd.unwrap_or_else(|| rat(0)).0;
                            vcs += 1;
                            if d.der == rf {
                                ident += 1;
                            }
                            let (verdict, model) = decide_nra(d.der, rf, &[fval], true);
                            match verdict {
                                Verdict::Unsat => {}
                                Verdict::Sat => res.push(("value", show_term(d.der), show_term(rf), format!("derivative w.r.t. variables {idxs:?} of `{text}` printed as `{}`", d.text), model)),
                                Verdict::Inconclusive => res.push(("inconclusive", show_term(d.der), show_term(rf), format!("derivative {idxs:?} of `{text}`"), BTreeMap::new())),
                            }
                        }
                        // C15 on a derived expression (variable list longer than the variables that occur)
                        for (what, term) in [("eval_vec", d.vec_term), ("eval_iter", d.iter_term)] {
                            if form == Form::Flat || form == Form::FlatFromDeep {
                                match term {
                                    Some(tm) if tm == d.der => {}
                                    Some(tm) => res.push(("consuming", show_term(tm), show_term(d.der), format!("{what} of the derivative `{}` differs from eval", d.text), BTreeMap::new())),
                                    None => res.push(("consuming", String::new(), show_term(d.der), format!("{what} of the derivative `{}` failed", d.text), BTreeMap::new())),
                                }
                            }
                        }
                        if d.poison {
                            res.push(("poison", String::new(), String::new(), format!("moved-out placeholder reached an operator in consuming evaluation of `{}`", d.text), BTreeMap::new()));
                        }
                        // C12: the printed derivative parses back to the same function
                        match &d.reparsed {
                            Err(e) => res.push(("reparse", String::new(), String::new(), format!("printed derivative `{}` does not parse: {e}", d.text), BTreeMap::new())),
                            Ok((rt, rn)) => {
                                if rn.iter().any(|n| !d.names.contains(n)) {
                                    res.push(("reparse", format!("{rn:?}"), format!("{:?}", d.names), format!("printed derivative `{}` has other variables", d.text), BTreeMap::new()));
                                }
                                vcs += 1;
                                if *rt == d.der {
                                    ident += 1;
                                } else {
                                    let (verdict, model) = decide_nra(*rt, d.der, &[fval], true);
                                    match verdict {
                                        Verdict::Unsat => {}
                                        Verdict::Sat => res.push(("reparse", show_term(*rt), show_term(d.der), format!("printed derivative `{}` parses back to a different function", d.text), model)),
                                        Verdict::Inconclusive => res.push(("inconclusive", show_term(*rt), show_term(d.der), format!("reparse of `{}`", d.text), BTreeMap::new())),
                                    }
                                }
                            }
                        }
                    }
                }
                (res, vcs, ident)
            });
            if truncated {
                out.truncated += 1;
            }
            out.paths += paths.len() as u64;
            out.forks += paths.iter().map(|p| p.trace.len() as u64).sum::<u64>();
            for p in paths {
                let (res, vcs, ident) = p.result;
                out.stats.vcs += vcs;
                out.stats.vcs_identical += ident;
                for (kind, imp, rf, detail, model) in res {
                    let kind_s: &'static str = kind;
                    let mut f = mk_finding(kind_s, form.name(), tab, &text, Some(t), imp, rf, detail);
                    f.model = model;
                    if kind_s == "inconclusive" {
                        if out.findings.len() < 12 {
                            out.findings.push(f);
                        }
                    } else {
                        push(out, f);
                    }
                }
            }
            if out.samples.len() < 2 && out.stats.programs % 37 == 0 {
                out.samples.push(json!({"expression": text, "variables": idxs, "form": form.name()}));
            }
        }
    }
}

/// C15 on derived expressions: derivatives keep the variable list of the antiderivative, so variables
/// may be listed that occur in no node while others repeat.
pub fn part_derived_consuming(args: &Args) -> Part {
    let quick = args.tier_quick();
    let tab = default_float_table(true);
    table::set_table(&tab);
    let o = ops();
    let mut pool: Vec<Tree> = vec![];
    let leaves = [v("x"), v("y"), v("z"), l("2")];
    let bins = [o.mul, o.add, o.sub];
    for n in 2..=(if quick { 4 } else { 5 }) {
        for lv in crate::tree::tuples(4, n) {
            for ov in crate::tree::tuples(3, n - 1) {
                if n >= 4 && (lv.iter().sum::<usize>() + ov.iter().sum::<usize>() + args.seed() as usize) % (if n == 4 { 2 } else { 7 }) != 0 {
                    continue;
                }
                let ls: Vec<Tree> = lv.iter().map(|&i| leaves[i].clone()).collect();
                let os: Vec<u16> = ov.iter().map(|&i| bins[i]).collect();
                pool.push(crate::families::chain_to_tree(&ls, &os));
            }
        }
    }
    let _ = std::panic::take_hook();
    std::panic::set_hook(Box::new(|_| {}));
    let tabc = tab.clone();
    let (out, wall) = par_calc(args, &tab, true, &pool, &move |t: &Tree, _i, out: &mut CalcOut| {
        let text = render(t, &Style::default());
        let names = t.var_names();
        out.stats.programs += 1;
        out.stats.note_text(15, &text);
        for vi in 0..names.len() {
            for order in 1..=2usize {
                let idxs = vec![vi; order];
                let (paths, _) = explore(16, || catch_unwind(AssertUnwindSafe(|| differentiate(Form::Flat, &text, &idxs))).map_err(panic_msg));
                out.paths += paths.len() as u64;
                for p in paths {
                    match p.result {
                        Err(m) => push(out, mk_finding("panic", "flat.partial.eval_vec", &tabc, &text, Some(t), String::new(), String::new(), m)),
                        Ok(Err(e)) => push(out, mk_finding("derivative-error", "flat.partial", &tabc, &text, Some(t), String::new(), String::new(), e.msg().to_string())),
                        Ok(Ok(d)) => {
                            out.stats.vcs += 2;
                            for (what, term) in [("eval_vec", d.vec_term), ("eval_iter", d.iter_term)] {
                                match term {
                                    Some(tm) if tm == d.der => out.stats.vcs_identical += 1,
                                    Some(tm) => push(out, mk_finding("consuming", what, &tabc, &text, Some(t), show_term(tm), show_term(d.der), format!("{what} of d^{order}/d{}^{order} = `{}` (variables {:?}) differs from eval", names[vi], d.text, d.names))),
                                    None => push(out, mk_finding("consuming", what, &tabc, &text, Some(t), String::new(), show_term(d.der), format!("{what} of the derivative `{}` failed", d.text))),
                                }
                            }
                            if d.poison {
                                push(out, mk_finding("poison", "eval_vec/eval_iter", &tabc, &text, Some(t), String::new(), String::new(), format!("moved-out placeholder reached an operator in consuming evaluation of `{}` with variables {:?}", d.text, d.names)));
                            }
                        }
                    }
                }
            }
        }
        if out.samples.len() < 2 && out.stats.programs % 53 == 0 {
            out.samples.push(json!({"antiderivative": text, "derivatives": "first and second order w.r.t. every variable", "compared": "eval vs eval_vec vs eval_iter (identical terms), placeholder flag"}));
        }
    });
    let _ = std::panic::take_hook();
    to_part("derived-expressions", out, wall, json!({
        "pool": format!("{} chains of 2..={} leaves from x, y, z, 2 over * + - (longer lengths sampled)", pool.len(), if quick { 4 } else { 5 }),
        "derived_by": "FlatEx::partial of order 1 and 2 w.r.t. every variable (the variable list of a derivative is that of its antiderivative, so listed variables may not occur while others repeat)",
        "check": "eval_vec and eval_iter produce the identical term as eval; the placeholder never reaches an operator",
    }))
}

/// C12 on derived expressions: the text printed by a derivative parses back to the same function.
pub fn part_derived_roundtrip(args: &Args) -> Part {
    let quick = args.tier_quick();
    let tab = default_float_table(true);
    table::set_table(&tab);
    let pool: Vec<Tree> = diff_pool(quick, args.seed()).into_iter().step_by(if quick { 2 } else { 1 }).collect();
    let _ = std::panic::take_hook();
    std::panic::set_hook(Box::new(|_| {}));
    let tab1 = tab.clone();
    let (mut o1, w1) = par_calc(args, &tab, true, &pool, &move |t: &Tree, _i, out| check_derivative(&tab1, t, 1, &[Form::Flat, Form::Deep], out, 32));
    let _ = std::panic::take_hook();
    // only the round-trip findings belong to this property
    let before = o1.findings.len();
    o1.findings.retain(|f| matches!(f.kind, "reparse" | "panic" | "inconclusive"));
    o1.stats.violations = o1.findings.iter().filter(|f| f.kind != "inconclusive").count() as u64;
    let _ = before;
    to_part("derived-roundtrip", o1, w1, json!({
        "pool": format!("{} differentiable trees (pool of C05)", pool.len()),
        "check": "FlatEx::parse(d.unparse()) / DeepEx::parse(d.unparse()) of every first-order derivative d has no additional variables and, decided by the solver (NRA), the same value",
        "note": "round trips after operator application are asserted in the C10 check (kind `reparse`), after substitution the text is compared in C11's pool through evaluation",
    }))
}

/// C12 on texts with NEGATIVE literals: a folded negative constant prints with a leading `-`, which must not be
/// merged with the operator in front of it (`a max b + -1.5` is not `a max b-1.5`: binary `-` binds tighter than `+`).
pub fn part_negative_literals(args: &Args) -> Part {
    let quick = args.tier_quick();
    let tab = default_float_table(true);
    table::set_table(&tab);
    let o = ops();
    let bins = [o.add, o.sub, o.mul, o.div, o.pow, k("max"), k("min"), k("atan2")];
    let negl = |s: &str| Tree::un(o.sub, l(s));
    let leaves = [v("x"), v("y"), l("2"), negl("1.5"), negl("2"), Tree::un(o.sub, Tree::un(o.sub, l("3")))];
    let mut pool: Vec<Tree> = vec![];
    for &k1 in &bins {
        for a in &leaves {
            for c in &leaves {
                pool.push(Tree::bin(k1, a.clone(), c.clone()));
                pool.push(Tree::un(k("sin"), Tree::bin(k1, a.clone(), c.clone())));
            }
        }
    }
    let mut ctr = args.seed();
    for &k1 in &bins {
        for &k2 in &bins {
            for a in &leaves {
                for c in &leaves {
                    for d in &leaves {
                        // at least one negative literal, at least one variable
                        let all = [a, c, d];
                        if !all.iter().any(|t| matches!(t, Tree::Un(..))) || !all.iter().any(|t| matches!(t, Tree::Var(_))) {
                            continue;
                        }
                        ctr += 1;
                        if quick && ctr % 3 != 0 {
                            continue;
                        }
                        pool.push(Tree::bin(k1, Tree::bin(k2, a.clone(), c.clone()), d.clone()));
                        pool.push(Tree::bin(k1, a.clone(), Tree::bin(k2, c.clone(), d.clone())));
                    }
                }
            }
        }
    }
    let _ = std::panic::take_hook();
    std::panic::set_hook(Box::new(|_| {}));
    let tabc = tab.clone();
    let (out, wall) = par_calc(args, &tab, true, &pool, &move |t: &Tree, _i, out| {
        let text = render(t, &Style::default());
        out.stats.programs += 1;
        out.stats.note_text(0, &text);
        for form in [Form::Deep, Form::FlatFromDeep, Form::DeepFromFlat, Form::Flat] {
            let (paths, _) = explore(8, || {
                let fval = t.to_sym().0;
                let r = catch_unwind(AssertUnwindSafe(|| differentiate(form, &text, &[])));
                let mut res: Vec<(&'static str, String, String, String)> = vec![];
                match r {
                    Err(p) => res.push(("panic", String::new(), String::new(), panic_msg(p))),
                    Ok(Err(e)) => res.push(("rejected", String::new(), String::new(), e.msg().to_string())),
                    Ok(Ok(d)) => match &d.reparsed {
                        Err(m) => res.push(("reparse", String::new(), String::new(), format!("printed text `{}` does not parse: {m}", d.text))),
                        Ok((rv, rn)) => {
                            if rn.iter().any(|n| !d.names.contains(n)) {
                                res.push(("reparse", format!("{rn:?}"), format!("{:?}", d.names), format!("printed text `{}` has other variables", d.text)));
                            }
                            if *rv != d.der {
                                let (vd, _) = decide_nra(*rv, d.der, &[fval], false);
                                match vd {
                                    Verdict::Unsat => {}
                                    Verdict::Sat => res.push(("reparse", show_term(*rv), show_term(d.der), format!("printed text `{}` parses back to a different expression", d.text))),
                                    Verdict::Inconclusive => res.push(("inconclusive", String::new(), String::new(), format!("reparse of `{}`", d.text))),
                                }
                            }
                        }
                    },
                }
                res
            });
            out.paths += paths.len() as u64;
            out.stats.vcs += 1;
            for p in paths {
                for (kind, imp, rf, detail) in p.result {
                    let f = mk_finding(kind, form.name(), &tabc, &text, Some(t), imp, rf, detail);
                    if kind == "inconclusive" {
                        if out.findings.len() < 12 {
                            out.findings.push(f);
                        }
                    } else {
                        push(out, f);
                    }
                }
            }
        }
    });
    let _ = std::panic::take_hook();
    to_part("negative-literals-roundtrip", out, wall, json!({
        "pool": format!("{} trees over + - * / ^ max min atan2 with leaves x y 2 -1.5 -2 --3 (two leaves: all; under sin; three leaves, both shapes, at least one negative literal and one variable{})", pool.len(), if quick { ", every 3rd" } else { "" }),
        "literals": "exact rationals; a folded negative constant prints with a leading `-` like a negative float",
        "check": "parse(unparse(e)) for e = DeepEx::parse, FlatEx::from_deepex(DeepEx::parse), FlatEx::parse.to_deepex, FlatEx::parse: no additional variables and, decided by the solver (NRA, max/min/atan2 uninterpreted), the same value",
    }))
}

/// C11 with DERIVED replacements: constants that still declare variables (results of differentiation or of the
/// neutral-element shortcuts). Value must be the original with the variable bound to the constant; the variable
/// list must be the sorted union of the untouched variables and the replacement's declared variables.
pub fn part_subs_derived(args: &Args) -> Part {
    let tab = default_float_table(true);
    table::set_table(&tab);
    let o = ops();
    let exprs: Vec<Tree> = vec![
        Tree::bin(o.add, Tree::bin(o.mul, l("2"), v("z")), v("x")),
        Tree::bin(o.mul, v("z"), v("y")),
        Tree::bin(o.add, Tree::un(k("sin"), v("z")), v("x")),
        Tree::bin(o.div, v("z"), Tree::bin(o.add, v("x"), l("1"))),
        Tree::bin(o.pow, v("z"), l("2")),
        Tree::bin(o.sub, v("a"), Tree::bin(o.mul, v("z"), v("z"))),
        v("z"),
    ];
    // (how the replacement is made, its constant value, its declared variables)
    let repls: Vec<(&'static str, i64, Vec<&'static str>)> = vec![
        ("d(3*u)/du", 3, vec!["u"]),
        ("u*0", 0, vec!["u"]),
        ("d2(x*y)/dx2", 0, vec!["x", "y"]),
        ("d(u+w)/du", 1, vec!["u", "w"]),
        ("d(5*b)/db", 5, vec!["b"]),
        ("(u*0)+1", 1, vec!["u"]),
    ];
    let items: Vec<(usize, usize)> = (0..exprs.len()).flat_map(|i| (0..repls.len()).map(move |j| (i, j))).collect();
    let _ = std::panic::take_hook();
    std::panic::set_hook(Box::new(|_| {}));
    let tabc = tab.clone();
    let ex = exprs.clone();
    let rp = repls.clone();
    let (out, wall) = par_calc(args, &tab, true, &items, &move |it: &(usize, usize), _i, out: &mut CalcOut| {
        let (ei, ri) = *it;
        let e = &ex[ei];
        let (how, cval, rvars) = &rp[ri];
        let text = render(e, &Style::default());
        out.stats.programs += 1;
        out.stats.note_text(11, &format!("{text} z:={how}"));
        // reference
        let mut sigma = BTreeMap::new();
        sigma.insert("z".to_string(), Tree::lit(&cval.to_string()));
        fn subst(t: &Tree, s: &BTreeMap<String, Tree>) -> Tree {
            match t {
                Tree::Var(n) => s.get(n).cloned().unwrap_or_else(|| t.clone()),
                Tree::Un(kk, a) => Tree::un(*kk, subst(a, s)),
                Tree::Paren(a) => subst(a, s),
                Tree::Bin(kk, a, c) | Tree::Call(kk, a, c) => Tree::bin(*kk, subst(a, s), subst(c, s)),
                other => other.clone(),
            }
        }
        let reference = subst(e, &sigma);
        let mut ref_names: Vec<String> = e.var_names().into_iter().filter(|n| n != "z").chain(rvars.iter().map(|s| s.to_string())).collect();
        ref_names.sort();
        ref_names.dedup();
        for form in ["flat", "deep"] {
            let (paths, _) = explore(16, || {
                catch_unwind(AssertUnwindSafe(|| -> exmex::ExResult<(Id, Vec<String>)> {
                    let mk_deep = || -> exmex::ExResult<Deep<Sym, SymOps>> {
                        Ok(match *how {
                            "d(3*u)/du" => Deep::<Sym, SymOps>::parse("3*u")?.partial(0)?,
                            "u*0" => (Deep::<Sym, SymOps>::parse("u")? * Deep::<Sym, SymOps>::parse("0")?)?,
                            "d2(x*y)/dx2" => Deep::<Sym, SymOps>::parse("x*y")?.partial_nth(0, 2)?,
                            "d(u+w)/du" => Deep::<Sym, SymOps>::parse("u+w")?.partial(0)?,
                            "d(5*b)/db" => Deep::<Sym, SymOps>::parse("5*b")?.partial(0)?,
                            _ => ((Deep::<Sym, SymOps>::parse("u")? * Deep::<Sym, SymOps>::parse("0")?)? + Deep::<Sym, SymOps>::parse("1")?)?,
                        })
                    };
                    if form == "deep" {
                        let d = Deep::<Sym, SymOps>::parse(&text)?;
                        let mut sub = |n: &str| if n == "z" { mk_deep().ok() } else { None };
                        let r = d.subs(&mut sub)?;
                        let names = r.var_names().to_vec();
                        Ok((r.eval(&vals(&names))?.0, names))
                    } else {
                        let f = Flat::<Sym, SymOps>::parse(&text)?;
                        let mut sub = |n: &str| if n == "z" { mk_deep().ok().and_then(|d| Flat::<Sym, SymOps>::from_deepex(d).ok()) } else { None };
                        let r = f.subs(&mut sub)?;
                        let names = r.var_names().to_vec();
                        Ok((r.eval(&vals(&names))?.0, names))
                    }
                }))
                .map_err(panic_msg)
            });
            out.paths += paths.len() as u64;
            for p in paths {
                match p.result {
                    Err(m) => push(out, mk_finding("panic", form, &tabc, &format!("{text} with z := {how}"), Some(&reference), String::new(), String::new(), m)),
                    Ok(Err(e2)) => push(out, mk_finding("rejected", form, &tabc, &format!("{text} with z := {how}"), Some(&reference), String::new(), String::new(), e2.msg().to_string())),
                    Ok(Ok((val, names))) => {
                        if names != ref_names {
                            push(out, mk_finding("varnames", form, &tabc, &format!("{text} with z := {how}"), Some(&reference), format!("{names:?}"), format!("{ref_names:?}"), "variable list is not the sorted union of untouched and replacement variables".into()));
                        }
                        let rf = reference.to_sym().0;
                        out.stats.vcs += 1;
                        if val != rf {
                            let (vd, model) = decide_nra(val, rf, &[], true);
                            match vd {
                                Verdict::Unsat => {}
                                Verdict::Sat => {
                                    let mut f = mk_finding("value", form, &tabc, &format!("{text} with z := {how}"), Some(&reference), show_term(val), show_term(rf), "substituted expression differs from the original with z bound to the constant".into());
                                    f.model = model;
                                    push(out, f);
                                }
                                Verdict::Inconclusive => {
                                    if out.findings.len() < 12 {
                                        out.findings.push(mk_finding("inconclusive", form, &tabc, &text, Some(&reference), String::new(), String::new(), String::new()));
                                    }
                                }
                            }
                        }
                    }
                }
            }
        }
        if out.samples.len() < 2 {
            out.samples.push(json!({"expression": text, "replacement_of_z": how, "constant": cval, "declared_variables": rvars}));
        }
    });
    let _ = std::panic::take_hook();
    to_part("derived-replacements", out, wall, json!({
        "expressions": exprs.iter().map(|t| render(t, &Style::default())).collect::<Vec<_>>(),
        "replacements_of_z": repls.iter().map(|r| r.0).collect::<Vec<_>>(),
        "check": "value == original with z bound to the constant (solver, NRA); var_names == sorted union of the untouched variables and the replacement's declared variables; FlatEx::subs and DeepEx::subs",
        "table": "default float table transplanted to T = Sym (the replacements are produced by the real partial / overloaded operators)",
    }))
}

pub fn c05(args: &Args) -> i32 {
    let quick = args.tier_quick();
    let tab = default_float_table(true);
    table::set_table(&tab);
    let pool = diff_pool(quick, args.seed());
    let forms_all = [Form::Flat, Form::Deep, Form::FlatFromDeep, Form::DeepFromFlat];
    let _ = std::panic::take_hook();
    std::panic::set_hook(Box::new(|_| {}));
    // exact rational literals
    let tab1 = tab.clone();
    let only = args.get("only", "");
    let want = |n: &str| only.is_empty() || n.contains(&only);
    let empty: Vec<Tree> = vec![];
    let (o1, w1) = par_calc(args, &tab, true, if want("derivative-exact-literals") { &pool } else { &empty }, &move |t: &Tree, _i, out| check_derivative(&tab1, t, 1, &forms_all, out, 64));
    let p1 = to_part("derivative-exact-literals", o1, w1, json!({
        "pool": format!("{} differentiable trees: all binary combinations of two leaves out of x, y, 2, 3, 0.5, 1, 0 over + - * / ^; three-leaf trees (both shapes); each of the 18 functions over a leaf, a product, a sum, a power, a quotient, nested in pairs, inside arithmetic; classic test expressions", pool.len()),
        "forms": forms_all.iter().map(|f| f.name()).collect::<Vec<_>>(),
        "literals": "exact rationals (shortcut branches decided concretely or by the solver)",
        "order": 1, "variables": "every variable index",
        "also_asserted": ["var_names(derivative) == var_names(antiderivative) (C09)", "printed derivative parses back to the same function (C12)", "eval_vec/eval_iter of the derivative == eval, placeholder never reaches an operator (C15)"],
    }));
    // literals as free constants: shortcut branches forked with symbolic content
    let small: Vec<Tree> = pool.iter().filter(|t| t.size() <= 4).cloned().step_by(if quick { 3 } else { 1 }).collect();
    let tab2 = tab.clone();
    let small: Vec<Tree> = if want("derivative-symbolic-literals") { small } else { vec![] };
    let (o2, w2) = par_calc(args, &tab, false, &small, &move |t: &Tree, _i, out| check_derivative(&tab2, t, 1, &[Form::Flat, Form::Deep], out, 48));
    let p2 = to_part("derivative-symbolic-literals", o2, w2, json!({
        "pool": format!("{} trees with <=4 nodes of the pool above", small.len()),
        "literals": "free real constants: every is_zero / is_one shortcut is forked by the decision oracle and both feasible outcomes are explored (depth-first re-execution)",
        "max_paths_per_program": 48,
    }));
    // second order (every ordered pair of variables) on a slice of the pool
    // quick: trees whose functions are applied to a variable only (second derivatives of nested functions are
    // large nonlinear terms on which z3's nlsat does not always answer within the cap); thorough: the wider slice
    fn simple(t: &Tree) -> bool {
        match t {
            Tree::Un(kk, a) => {
                let r = table::repr_of(*kk);
                if r == "+" || r == "-" {
                    simple(a)
                } else {
                    matches!(**a, Tree::Var(_))
                }
            }
            // a function in a denominator: the second derivative applies the quotient rule twice over an uninterpreted
            // function, which z3 does not always decide within the quick cap
            Tree::Bin(kk, a, b) | Tree::Call(kk, a, b) => simple(a) && simple(b) && !(table::repr_of(*kk) == "/" && matches!(**b, Tree::Un(..))),
            Tree::Paren(a) => simple(a),
            _ => true,
        }
    }
    let pool2: Vec<Tree> = if quick {
        pool.iter().enumerate().filter(|(i, t)| t.size() <= 7 && simple(t) && (t.var_names().len() >= 3 || i % 3 == 0) && (t.size() <= 5 || t.var_names().len() >= 3)).map(|(_, t)| t.clone()).collect()
    } else {
        pool.iter().filter(|t| t.size() <= 6).step_by(2).cloned().collect()
    };
    // a variable beside a function of other variables (the first derivative loses a variable; see C09)
    let mut pool2 = pool2;
    {
        let o = ops();
        for f in ["cos", "exp"] {
            for g in [Tree::bin(o.mul, l("2"), v("y")), Tree::bin(o.mul, v("y"), v("z")), Tree::bin(o.pow, v("y"), l("2"))] {
                pool2.push(Tree::bin(o.mul, v("x"), Tree::un(k(f), g.clone())));
                pool2.push(Tree::bin(o.add, Tree::un(k(f), g.clone()), v("a")));
                pool2.push(Tree::bin(o.mul, Tree::un(k(f), g.clone()), v("z")));
            }
        }
    }
    let tab3 = tab.clone();
    let pool2: Vec<Tree> = if want("second-order") { pool2 } else { vec![] };
    let (o3, w3) = par_calc(args, &tab, true, &pool2, &move |t: &Tree, _i, out| check_derivative(&tab3, t, 2, &[Form::Flat, Form::Deep], out, 48));
    let p_second = to_part("second-order", o3, w3, json!({
        "pool": format!("{} trees with <=6 nodes of the pool", pool2.len()),
        "check": "partial_iter([i, j]) for every ordered pair of variables == dual-number derivative of the symbolic (tree) first derivative, i.e. derivatives of expressions produced by earlier differentiation",
    }));
    // operators without a derivative rule must give Err
    let t0 = Instant::now();
    sym::set_exact_lits(true);
    oracle::init_solver(10_000);
    oracle::set_theory(Theory::Nra);
    let mut no = new_out();
    let o = ops();
    let mut texts: Vec<(Tree, &str)> = vec![];
    for f in NO_RULE_UNARY {
        texts.push((Tree::un(k(f), v("x")), f));
        texts.push((Tree::bin(o.mul, v("y"), Tree::un(k(f), Tree::bin(o.add, v("x"), l("1")))), f));
        texts.push((Tree::un(k("sin"), Tree::un(k(f), v("x"))), f));
    }
    for f in NO_RULE_BINARY {
        texts.push((Tree::bin(k(f), v("x"), v("y")), f));
        texts.push((Tree::bin(o.add, Tree::call(k(f), v("x"), l("2")), v("y")), f));
    }
    for (t, f) in &texts {
        let text = render(t, &Style::default());
        no.stats.programs += 1;
        no.stats.note_text(7, &text);
        for form in [Form::Flat, Form::Deep] {
            for vi in 0..t.var_names().len() {
                sym::reset_arena();
                let r = catch_unwind(AssertUnwindSafe(|| differentiate(form, &text, &[vi])));
                match r {
                    Ok(Err(_)) => {}
                    Ok(Ok(d)) => push(&mut no, mk_finding("missing-error", form.name(), &tab, &text, Some(t), d.text, String::new(), format!("`{f}` has no derivative rule, but partial({vi}) returned an expression"))),
                    Err(p) => push(&mut no, mk_finding("panic", form.name(), &tab, &text, Some(t), String::new(), String::new(), panic_msg(p))),
                }
            }
        }
    }
    oracle::drop_solvers();
    sym::set_exact_lits(false);
    let _ = std::panic::take_hook();
    let p3 = to_part("no-rule-operators", no, t0.elapsed().as_secs_f64(), json!({"operators": ([NO_RULE_UNARY.to_vec(), NO_RULE_BINARY.to_vec()].concat()), "check": "partial must return Err for every variable, flat and deep (path-level)"}));
    finish(args, "C05", vec![p1, p2, p_second, p3], vec![], json!({
        "functions": ["partial::partial_deepex", "partial::partial_derivative_inner", "partial::partial_derivative_outer", "partial::make_partial_derivative_ops (all rules)", "partial::log_deri",
            "DeepEx::{add,sub,mul,div,pow,neg} with is_zero/is_one shortcuts", "DeepEx::operate_bin/operate_unary/compile", "Differentiate::partial_iter_relaxed", "FlatEx::to_deepex/from_deepex"],
        "assumptions": ["reals instead of floats ('exactly over exact arithmetic'); elementary functions uninterpreted with ground-instantiated laws (pow for small integer exponents, pow(a,b)*a = pow(a,b+1), sqrt(t)^2 = t, ln monotone, exp > 0, cosh >= 1)",
            "reference derivative = forward-mode dual numbers over the tree with the textbook rules, built from the same symbols",
            "domain = side conditions of the ORIGINAL function and its reference derivative only (denominators != 0, log/sqrt arguments > 0, |arg| < 1 for asin/acos/atanh, arg > 1 for acosh, base > 0 for non-integer exponents)",
            "metadata of the default table transplanted to T = Sym; the f64 function bodies are C19's subject"],
        "outside": ["the f64 instantiation itself (rounding)", "trees outside the pool", "orders > 1 (covered as bookkeeping identities in C09)"],
    }))
}

// ---------------------------------------------------------------------------------------------
// C18 piecewise expressions over the value table
// ---------------------------------------------------------------------------------------------

pub fn c18(args: &Args) -> i32 {
    let quick = args.tier_quick();
    let mut tab = crate::extra::val_table();
    tab.arithmetic = true;
    table::set_table(&tab);
    let o = ops();
    let (kif, kelse) = (k("if"), k("else"));
    let fs: Vec<Tree> = vec![
        Tree::bin(o.mul, v("x"), v("y")),
        Tree::un(k("sin"), v("x")),
        Tree::bin(o.pow, v("x"), l("2")),
        l("3"),
        Tree::bin(o.add, v("x"), l("1")),
        Tree::bin(o.div, v("y"), v("x")),
        Tree::un(k("exp"), Tree::bin(o.mul, l("2"), v("x"))),
        v("y"),
    ];
    let cs: Vec<Tree> = vec![
        Tree::bin(k("<"), v("x"), v("y")),
        Tree::bin(k(">="), v("x"), l("2")),
        Tree::bin(k("=="), v("x"), v("y")),
        Tree::bin(k("!="), v("y"), l("1")),
        Tree::bin(k(">"), Tree::bin(o.mul, v("x"), v("x")), v("y")),
        Tree::bin(k("<="), Tree::un(k("sin"), v("x")), l("0.5")),
    ];
    let (mut fs, mut cs) = (fs, cs);
    if !quick {
        fs.extend(vec![
            Tree::bin(o.mul, Tree::bin(o.mul, v("x"), v("x")), v("y")),
            Tree::un(k("ln"), v("x")),
            Tree::bin(o.div, l("1"), v("x")),
            Tree::bin(o.sub, v("x"), v("y")),
        ]);
        cs.extend(vec![
            Tree::bin(k("<"), v("x"), Tree::bin(o.mul, v("y"), l("2"))),
            Tree::bin(k(">="), v("y"), Tree::bin(o.add, v("x"), l("1"))),
        ]);
    }
    let pw = |f: &Tree, c: &Tree, g: &Tree| Tree::bin(kelse, Tree::bin(kif, f.clone(), c.clone()), g.clone());
    let mut pool: Vec<Tree> = vec![];
    let mut ctr = args.seed();
    for f in &fs {
        for c in &cs {
            for g in &fs {
                ctr += 1;
                let p = pw(f, c, g);
                pool.push(p.clone());
                if !quick || ctr % 3 == 0 {
                    // the condition as its own parenthesised group
                    pool.push(pw(f, &Tree::paren(c.clone()), g));
                }
                // quick: one embedding per triple (rotating); thorough: all six
                for variant in 0..6u64 {
                    if quick && ctr % 6 != variant {
                        continue;
                    }
                    match variant {
                        0 => pool.push(Tree::bin(o.mul, Tree::paren(p.clone()), v("y"))),
                        1 => pool.push(Tree::un(k("sin"), p.clone())),
                        2 => pool.push(Tree::bin(o.add, v("x"), Tree::paren(p.clone()))),
                        3 => pool.push(pw(f, c, &Tree::paren(pw(g, &cs[(ctr as usize) % cs.len()], f)))),
                        4 => pool.push(Tree::bin(o.sub, Tree::paren(p.clone()), Tree::paren(pw(g, &cs[(ctr as usize + 1) % cs.len()], f)))),
                        _ => pool.push(pw(&Tree::paren(pw(f, &cs[(ctr as usize + 2) % cs.len()], g)), c, g)),
                    }
                }
            }
        }
    }
    let _ = std::panic::take_hook();
    std::panic::set_hook(Box::new(|_| {}));
    let tab1 = tab.clone();
    let (o1, w1) = par_calc(args, &tab, true, &pool, &move |t: &Tree, _i, out| check_derivative(&tab1, t, 1, &[Form::Flat, Form::Deep], out, 48));
    // second order incl. mixed partials: the condition of a first derivative is its own sub-expression
    let pool2: Vec<Tree> = pool.iter().step_by(if quick { 2 } else { 1 }).cloned().collect();
    let tab2 = tab.clone();
    let (o2, w2) = par_calc(args, &tab, true, &pool2, &move |t: &Tree, _i, out| check_derivative(&tab2, t, 2, &[Form::Flat, Form::Deep], out, 48));
    let _ = std::panic::take_hook();
    let p2 = to_part("piecewise-second-order", o2, w2, json!({
        "pool": format!("{} of the piecewise expressions", pool2.len()),
        "check": "partial_iter([i, j]) for every ordered pair of variables == dual-number derivative of the symbolic tree derivative (mixed partials included)",
    }));
    let p1 = to_part("piecewise", o1, w1, json!({
        "table": "metadata of the real ValOpsFactory::<i32,f64>::make() transplanted to T = Sym",
        "pool": format!("{} expressions: `f if c else g` for 8 (thorough: 12) branch expressions x 6 (8) comparison conditions x 8 (12) branch expressions, each also (quick: one of the six per triple, rotating; thorough: all) inside arithmetic, under sin, with a nested piecewise branch, as difference of two piecewise terms, with a piecewise first branch", pool.len()),
        "interpretation": "`a if c` = ite(c != 0, a, none), `r else b` = ite(r = none, b, r), comparisons = ite(.., 1, 0) over the reals; none is a constant different from every branch value",
        "reference": "dual numbers; comparisons keep their value, if/else differentiate per operand, so the reference derivative is ite(c, f', g')",
        "forms": ["flat", "deep"],
    }));
    let p3 = part_value_kinds(args);
    finish(args, "C18", vec![p1, p2, p3], vec![], json!({
        "functions": ["partial::make_partial_derivative_ops (if, else, comparison entries)", "partial::partial_derisval", "partial::partial_derivative_inner", "DeepEx::operate_bin"],
        "assumptions": ["reals for numbers; the value kinds (Int/Float mixing, From<f32>, From<u8>, the if/else/comparison functions themselves) are engine K's cells", "a condition is not differentiated, so no assumption about branch boundaries is needed for the expression-level claim"],
        "outside": ["arrays (documented as unsupported by differentiation)", "piecewise nesting deeper than 2"],
    }))
}

// ---------------------------------------------------------------------------------------------
// C18, value kinds: the derivative rules create their constants through From<u8> (Int) and From<f32> (Float); which
// one they pick decides whether an integer polynomial can still be evaluated at integer points (Val's `^` has no
// (Int, Float) case). Engine S over the reals cannot see kinds, so this part runs the REAL parse_val::<i32,f64>,
// partial and eval on concrete operands of every kind pattern and compares with an exact rational dual-number
// evaluation. Plain execution, no solver: path-level (the kind of a result does not depend on the payload).
// ---------------------------------------------------------------------------------------------

type Q = (i128, i128);
fn qn(n: i128, d: i128) -> Q {
    fn g(a: i128, b: i128) -> i128 {
        if b == 0 { a.abs() } else { g(b, a % b) }
    }
    let s = if d < 0 { -1 } else { 1 };
    let k = g(n, d).max(1);
    (s * n / k, s * d / k)
}
fn qadd(a: Q, b: Q) -> Q { qn(a.0 * b.1 + b.0 * a.1, a.1 * b.1) }
fn qsub(a: Q, b: Q) -> Q { qn(a.0 * b.1 - b.0 * a.1, a.1 * b.1) }
fn qmul(a: Q, b: Q) -> Q { qn(a.0 * b.0, a.1 * b.1) }
fn qpow(a: Q, e: u32) -> Q {
    let mut r = (1, 1);
    for _ in 0..e {
        r = qmul(r, a);
    }
    r
}

/// (value, derivative) over the rationals; None = the piecewise `none` / outside the supported fragment
fn dual_q(t: &Tree, env: &BTreeMap<String, Q>, var: &str) -> Option<(Q, Q)> {
    match t {
        Tree::Lit(s) => sym::parse_rat(s).map(|(n, d)| ((n as i128, d as i128), (0, 1))),
        Tree::Var(n) => env.get(n).map(|q| (*q, if n == var { (1, 1) } else { (0, 1) })),
        Tree::Paren(a) => dual_q(a, env, var),
        Tree::Un(kk, a) => {
            let (v, d) = dual_q(a, env, var)?;
            match table::repr_of(*kk).as_str() {
                "-" => Some((qsub((0, 1), v), qsub((0, 1), d))),
                "+" => Some((v, d)),
                _ => None,
            }
        }
        Tree::Bin(kk, a, b) | Tree::Call(kk, a, b) => {
            let r = table::repr_of(*kk);
            if r == "else" {
                return match dual_q(a, env, var) {
                    Some(x) => Some(x),
                    None => dual_q(b, env, var),
                };
            }
            if r == "if" {
                let (c, _) = dual_q(b, env, var)?;
                return if c.0 != 0 { dual_q(a, env, var) } else { None };
            }
            let (x, dx) = dual_q(a, env, var)?;
            let (y, dy) = dual_q(b, env, var)?;
            let cmp = |c: bool| Some((if c { (1, 1) } else { (0, 1) }, (0, 1)));
            let lt = x.0 * y.1 < y.0 * x.1;
            let eq = x == y;
            match r.as_str() {
                "+" => Some((qadd(x, y), qadd(dx, dy))),
                "-" => Some((qsub(x, y), qsub(dx, dy))),
                "*" => Some((qmul(x, y), qadd(qmul(dx, y), qmul(x, dy)))),
                "^" => {
                    // literal non-negative integer exponent only
                    if y.1 != 1 || y.0 < 1 || y.0 > 6 || dy.0 != 0 {
                        return None;
                    }
                    let e = y.0 as u32;
                    Some((qpow(x, e), qmul(qmul((e as i128, 1), qpow(x, e - 1)), dx)))
                }
                "<" => cmp(lt),
                ">" => cmp(!lt && !eq),
                "<=" => cmp(lt || eq),
                ">=" => cmp(!lt),
                "==" => cmp(eq),
                "!=" => cmp(!eq),
                _ => None,
            }
        }
        Tree::Konst(_) => None,
    }
}

pub fn part_value_kinds(args: &Args) -> Part {
    use exmex::prelude::*;
    use exmex::Val;
    let quick = args.tier_quick();
    let t0 = Instant::now();
    let mut tab = crate::extra::val_table();
    tab.arithmetic = true;
    table::set_table(&tab);
    let o = ops();
    let (kif, kelse) = (k("if"), k("else"));
    let p = |b: Tree, e: &str| Tree::bin(o.pow, b, l(e));
    let mut pool: Vec<Tree> = vec![];
    let bases = [v("x"), Tree::bin(o.add, Tree::bin(o.mul, l("2"), v("x")), l("1")), Tree::bin(o.add, v("x"), v("y")), Tree::bin(o.mul, v("x"), v("y")), Tree::bin(o.sub, v("y"), Tree::bin(o.mul, l("3"), v("x")))];
    for b in &bases {
        for e in ["1", "2", "3", "4", "5"] {
            pool.push(p(b.clone(), e));
            pool.push(Tree::bin(o.mul, l("3"), p(b.clone(), e)));
            pool.push(Tree::bin(o.add, p(b.clone(), e), Tree::bin(o.mul, v("x"), v("y"))));
            pool.push(Tree::bin(o.mul, p(b.clone(), e), p(v("y"), "2")));
            pool.push(Tree::un(o.sub, p(b.clone(), e)));
            if !quick || e == "3" {
                pool.push(Tree::bin(kelse, Tree::bin(kif, p(b.clone(), e), Tree::bin(k(">"), v("x"), l("1"))), Tree::bin(o.mul, l("3"), v("x"))));
                pool.push(Tree::bin(kelse, Tree::bin(kif, Tree::bin(o.mul, v("x"), v("x")), Tree::bin(k("<"), v("x"), v("y"))), p(b.clone(), e)));
                pool.push(p(p(b.clone(), e), "2"));
            }
        }
    }
    let points: [(&str, Val<i32, f64>, Q); 5] = [("Int(2)", Val::Int(2), (2, 1)), ("Int(-3)", Val::Int(-3), (-3, 1)), ("Float(1.5)", Val::Float(1.5), (3, 2)), ("Int(1)", Val::Int(1), (1, 1)), ("Float(-2.0)", Val::Float(-2.0), (-2, 1))];
    let mut out = new_out();
    let _ = std::panic::take_hook();
    std::panic::set_hook(Box::new(|_| {}));
    for t in &pool {
        let text = render(t, &Style::default());
        let names = t.var_names();
        out.stats.programs += 1;
        out.stats.note_text(0, &text);
        for form in ["flat", "deep"] {
            for choice in crate::tree::tuples(points.len(), names.len()) {
                let env: BTreeMap<String, Q> = names.iter().cloned().zip(choice.iter().map(|&c| points[c].2)).collect();
                let vals: Vec<Val<i32, f64>> = choice.iter().map(|&c| points[c].1.clone()).collect();
                let label: Vec<&str> = choice.iter().map(|&c| points[c].0).collect();
                for (vi, var) in names.iter().enumerate() {
                    let Some((fv, fd)) = dual_q(t, &env, var) else { continue };
                    // stay inside i32 (overflow is an error value by C16/C17, not the subject here)
                    if fv.0.abs() > 1_000_000 || fd.0.abs() > 1_000_000 {
                        continue;
                    }
                    out.stats.vcs += 1;
                    let r = catch_unwind(AssertUnwindSafe(|| -> Result<Val<i32, f64>, String> {
                        if form == "flat" {
                            let e = exmex::parse_val::<i32, f64>(&text).map_err(|e| e.msg().to_string())?;
                            let d = e.partial(vi).map_err(|e| e.msg().to_string())?;
                            d.eval(&vals).map_err(|e| e.msg().to_string())
                        } else {
                            let e = exmex::DeepEx::<Val<i32, f64>, exmex::ValOpsFactory<i32, f64>, exmex::ValMatcher>::parse(&text).map_err(|e| e.msg().to_string())?;
                            let d = e.partial(vi).map_err(|e| e.msg().to_string())?;
                            d.eval(&vals).map_err(|e| e.msg().to_string())
                        }
                    }));
                    let want = fd.0 as f64 / fd.1 as f64;
                    let bad = match &r {
                        Err(p2) => Some(format!("panic: {}", panic_msg_ref(p2))),
                        Ok(Err(m)) => Some(format!("error: {m}")),
                        Ok(Ok(Val::Int(n))) => if (*n as f64 - want).abs() > 1e-9 { Some(format!("Int({n})")) } else { None },
                        Ok(Ok(Val::Float(x))) => if (*x - want).abs() > 1e-9 * want.abs().max(1.0) { Some(format!("Float({x})")) } else { None },
                        Ok(Ok(other)) => Some(format!("{other:?}")),
                    };
                    if let Some(got) = bad {
                        let f = mk_finding("value-kind", form, &tab, &text, Some(t), got.clone(), format!("{}/{}", fd.0, fd.1),
                            format!("d/d{var} of `{text}` at {names:?} = {label:?}: the real parse_val::<i32,f64> derivative evaluates to {got}, the exact derivative is {}/{}", fd.0, fd.1));
                        push(&mut out, f);
                    }
                }
            }
        }
    }
    let _ = std::panic::take_hook();
    to_part("value-kinds", out, t0.elapsed().as_secs_f64(), json!({
        "pool": format!("{} integer polynomials: (x | 2*x+1 | x+y | x*y | y-3*x)^e for e = 1..5, scaled, added to x*y, multiplied by y^2, negated, as a branch of `.. if x > 1 else 3*x` / `x*x if x < y else ..`, squared", pool.len()),
        "points": "every assignment of Int(2), Int(-3), Float(1.5), Int(1), Float(-2.0) to the variables (all kind patterns), flat and deep",
        "check": "the REAL parse_val::<i32,f64>(text).partial(i).eval(point) is a number equal to the exact rational dual-number derivative (|.| <= 10^6 so that i32 overflow is not involved)",
        "note": "concrete execution without a solver (path-level): the KIND of the constants that the derivative rules create (From<u8> vs From<f32>) decides whether `Int ^ constant` is defined; the real-valued claim is the solver-decided part above",
    }))
}

// ---------------------------------------------------------------------------------------------
// C09 bookkeeping
// ---------------------------------------------------------------------------------------------

fn seqs(n_vars: usize, max_len: usize) -> Vec<Vec<usize>> {
    let mut out = vec![vec![]];
    let mut cur = vec![vec![]];
    for _ in 0..max_len {
        let mut next = vec![];
        for s in &cur {
            for i in 0..=n_vars {
                let mut t: Vec<usize> = s.clone();
                t.push(i);
                next.push(t);
            }
        }
        out.extend(next.iter().cloned());
        cur = next;
    }
    out
}

pub fn c09(args: &Args) -> i32 {
    let quick = args.tier_quick();
    let tab = default_float_table(true);
    table::set_table(&tab);
    let o = ops();
    let pool: Vec<Tree> = vec![
        Tree::bin(o.mul, v("x"), v("y")),
        Tree::bin(o.add, Tree::bin(o.pow, v("x"), l("3")), Tree::bin(o.mul, v("x"), Tree::bin(o.pow, v("y"), l("2")))),
        Tree::bin(o.mul, Tree::un(k("sin"), v("x")), Tree::un(k("exp"), v("y"))),
        Tree::bin(o.div, v("x"), v("y")),
        Tree::un(k("ln"), Tree::bin(o.mul, v("x"), v("y"))),
        Tree::bin(o.add, v("x"), Tree::bin(o.add, v("y"), v("z"))),
        Tree::bin(o.mul, Tree::bin(o.mul, v("x"), v("y")), v("y")),
        Tree::bin(o.pow, v("x"), l("4")),
        l("7"),
        v("x"),
        Tree::bin(o.sub, Tree::un(k("cos"), Tree::bin(o.mul, v("x"), v("y"))), Tree::bin(o.pow, v("z"), l("2"))),
        Tree::bin(o.mul, Tree::un(k("sqrt"), v("x")), Tree::un(k("tanh"), v("y"))),
        Tree::bin(o.mul, Tree::bin(o.mul, v("a"), v("x")), v("y")),
        Tree::bin(o.add, Tree::bin(o.mul, v("a"), v("x")), Tree::bin(o.mul, v("y"), v("z"))),
        Tree::bin(o.mul, Tree::bin(o.mul, Tree::bin(o.mul, v("b"), v("a")), v("z")), v("x")),
        Tree::bin(o.sub, Tree::bin(o.div, v("x"), v("a")), v("y")),
    ];
    // a variable beside a function of OTHER variables: the first derivative loses a variable that sorts before or
    // after the surviving ones, and the second differentiation works on an expression whose variable list is longer
    // than the variables that occur (index re-basing in var_names_union / var_names_like_other)
    let mut pool = pool;
    let n_fixed = pool.len();
    {
        let inner: Vec<Tree> = vec![
            Tree::bin(o.pow, v("y"), l("2")),
            Tree::bin(o.mul, v("y"), v("z")),
            Tree::bin(o.mul, l("2"), v("y")),
            Tree::bin(o.add, v("y"), v("z")),
            Tree::bin(o.mul, v("a"), v("y")),
            Tree::bin(o.mul, v("x"), v("y")),
        ];
        let funcs: &[&str] = if quick { &["cos", "exp"] } else { &["cos", "exp", "sin", "ln", "tanh", "sqrt"] };
        for f in funcs {
            for g in &inner {
                for lone in ["x", "z", "a"] {
                    if g.var_names().iter().any(|n| n == lone) && lone != "x" {
                        continue;
                    }
                    for &kk in &[o.mul, o.add, o.div] {
                        pool.push(Tree::bin(kk, v(lone), Tree::un(k(f), g.clone())));
                        if kk != o.add {
                            pool.push(Tree::bin(kk, Tree::un(k(f), g.clone()), v(lone)));
                        }
                    }
                }
            }
        }
    }
    let max_len_fixed = if quick { 3 } else { 4 };
    let max_len_family = if quick { 2 } else { 3 };
    let _ = std::panic::take_hook();
    std::panic::set_hook(Box::new(|_| {}));
    let tabc = tab.clone();
    let (out, wall) = par_calc(args, &tab, true, &pool, &move |t: &Tree, i, out| {
        let text = render(t, &Style::default());
        let names = t.var_names();
        let n = names.len();
        let max_len = if i < n_fixed { max_len_fixed } else { max_len_family };
        out.stats.programs += 1;
        for form in [Form::Flat, Form::Deep] {
            for s in seqs(n, max_len) {
                out.stats.note_text(form as u64, &format!("{text} {s:?}"));
                let invalid = s.iter().any(|i| *i >= n);
                let (paths, _) = explore(24, || {
                    let mut res: Vec<(&'static str, String, String, String)> = vec![];
                    let fval = t.to_sym().0;
                    let r_iter = catch_unwind(AssertUnwindSafe(|| differentiate(form, &text, &s)));
                    match r_iter {
                        Err(p) => res.push(("panic", String::new(), String::new(), format!("partial_iter({s:?}): {}", panic_msg(p)))),
                        Ok(Err(_)) if invalid => {}
                        Ok(Err(e)) => res.push(("derivative-error", String::new(), String::new(), format!("partial_iter({s:?}) with valid indices failed: {}", e.msg()))),
                        Ok(Ok(d)) if invalid => res.push(("missing-error", d.text, String::new(), format!("partial_iter({s:?}) with an index >= {n} did not fail"))),
                        Ok(Ok(d)) => {
                            if d.names != names {
                                res.push(("varnames", format!("{:?}", d.names), format!("{names:?}"), format!("after partial_iter({s:?})")));
                            }
                            // sequential application in that order
                            let seq = catch_unwind(AssertUnwindSafe(|| -> exmex::ExResult<Id> {
                                match form {
                                    Form::Deep => {
                                        let mut e = Deep::<Sym, SymOps>::parse(&text)?;
                                        for i in &s {
                                            e = e.partial(*i)?;
                                        }
                                        let nn = e.var_names().to_vec();
                                        Ok(e.eval(&vals(&nn))?.0)
                                    }
                                    _ => {
                                        let mut e = Flat::<Sym, SymOps>::parse(&text)?;
                                        for i in &s {
                                            e = e.partial(*i)?;
                                        }
                                        let nn = e.var_names().to_vec();
                                        Ok(e.eval(&vals(&nn))?.0)
                                    }
                                }
                            }));
                            match seq {
                                Ok(Ok(sq)) => {
                                    if sq != d.der {
                                        let (vd, _) = decide_nra(d.der, sq, &[fval], false);
                                        match vd {
                                            Verdict::Unsat => {}
                                            Verdict::Sat => res.push(("value", show_term(d.der), show_term(sq), format!("partial_iter({s:?}) differs from sequential partial calls"))),
                                            Verdict::Inconclusive => res.push(("inconclusive", String::new(), String::new(), format!("partial_iter({s:?}) vs sequential"))),
                                        }
                                    }
                                }
                                Ok(Err(e)) => res.push(("derivative-error", String::new(), String::new(), format!("sequential partial {s:?} failed: {}", e.msg()))),
                                Err(p) => res.push(("panic", String::new(), String::new(), panic_msg(p))),
                            }
                            // order zero is the identity
                            if s.is_empty() && d.der != fval {
                                let (vd, _) = decide_nra(d.der, fval, &[fval], false);
                                if vd != Verdict::Unsat {
                                    res.push(("value", show_term(d.der), show_term(fval), "order zero is not the identity".into()));
                                }
                            }
                            // n-th derivative == n single derivatives (partial_nth), when all indices are equal
                            if !s.is_empty() && s.iter().all(|i| *i == s[0]) {
                                let nth = catch_unwind(AssertUnwindSafe(|| -> exmex::ExResult<Id> {
                                    match form {
                                        Form::Deep => {
                                            let e = Deep::<Sym, SymOps>::parse(&text)?.partial_nth(s[0], s.len())?;
                                            let nn = e.var_names().to_vec();
                                            Ok(e.eval(&vals(&nn))?.0)
                                        }
                                        _ => {
                                            let e = Flat::<Sym, SymOps>::parse(&text)?.partial_nth(s[0], s.len())?;
                                            let nn = e.var_names().to_vec();
                                            Ok(e.eval(&vals(&nn))?.0)
                                        }
                                    }
                                }));
                                match nth {
                                    Ok(Ok(nt)) if nt == d.der => {}
                                    Ok(Ok(nt)) => {
                                        let (vd, _) = decide_nra(nt, d.der, &[fval], false);
                                        if vd != Verdict::Unsat {
                                            res.push(("value", show_term(nt), show_term(d.der), format!("partial_nth({}, {}) differs from partial_iter", s[0], s.len())));
                                        }
                                    }
                                    _ => res.push(("derivative-error", String::new(), String::new(), format!("partial_nth({}, {}) failed", s[0], s.len()))),
                                }
                            }
                            // mixed partials agree in either order
                            if s.len() == 2 && s[0] != s[1] {
                                let rev: Vec<usize> = vec![s[1], s[0]];
                                if let Ok(Ok(d2)) = catch_unwind(AssertUnwindSafe(|| differentiate(form, &text, &rev))) {
                                    if d2.der != d.der {
                                        let (vd, _) = decide_nra(d.der, d2.der, &[fval], false);
                                        match vd {
                                            Verdict::Unsat => {}
                                            Verdict::Sat => res.push(("value", show_term(d.der), show_term(d2.der), format!("mixed partials {s:?} and {rev:?} differ"))),
                                            Verdict::Inconclusive => res.push(("inconclusive", String::new(), String::new(), format!("mixed partials {s:?}"))),
                                        }
                                    }
                                }
                            }
                        }
                    }
                    // relaxed variants validate indices as well
                    if invalid {
                        for mode in [exmex::MissingOpMode::None, exmex::MissingOpMode::PerOperand] {
                            let rr = catch_unwind(AssertUnwindSafe(|| -> bool {
                                match form {
                                    Form::Deep => Deep::<Sym, SymOps>::parse(&text).and_then(|e| e.partial_iter_relaxed(s.iter().copied(), mode)).is_err(),
                                    _ => Flat::<Sym, SymOps>::parse(&text).and_then(|e| e.partial_iter_relaxed(s.iter().copied(), mode)).is_err(),
                                }
                            }));
                            match rr {
                                Ok(true) => {}
                                Ok(false) => res.push(("missing-error", String::new(), String::new(), format!("partial_iter_relaxed({s:?}) with an index >= {n} did not fail"))),
                                Err(p) => res.push(("panic", String::new(), String::new(), panic_msg(p))),
                            }
                        }
                        if s.len() == 1 {
                            let rr = catch_unwind(AssertUnwindSafe(|| -> (bool, bool) {
                                match form {
                                    Form::Deep => (
                                        Deep::<Sym, SymOps>::parse(&text).and_then(|e| e.partial(s[0])).is_err(),
                                        Deep::<Sym, SymOps>::parse(&text).and_then(|e| e.partial_nth(s[0], 2)).is_err(),
                                    ),
                                    _ => (
                                        Flat::<Sym, SymOps>::parse(&text).and_then(|e| e.partial(s[0])).is_err(),
                                        Flat::<Sym, SymOps>::parse(&text).and_then(|e| e.partial_nth(s[0], 2)).is_err(),
                                    ),
                                }
                            }));
                            match rr {
                                Ok((true, true)) => {}
                                Ok(_) => res.push(("missing-error", String::new(), String::new(), format!("partial/partial_nth with index {} >= {n} did not fail", s[0]))),
                                Err(p) => res.push(("panic", String::new(), String::new(), panic_msg(p))),
                            }
                        }
                    }
                    res
                });
                out.paths += paths.len() as u64;
                out.stats.vcs += 1;
                for p in paths {
                    for (kind, imp, rf, detail) in p.result {
                        let f = mk_finding(kind, form.name(), &tabc, &text, Some(t), imp, rf, detail);
                        if kind == "inconclusive" {
                            if out.findings.len() < 12 {
                                out.findings.push(f);
                            }
                        } else {
                            push(out, f);
                        }
                    }
                }
            }
        }
    });
    let _ = std::panic::take_hook();
    let part = to_part("bookkeeping", out, wall, json!({
        "pool": pool.iter().map(|t| render(t, &Style::default())).collect::<Vec<_>>(),
        "index_sequences": format!("all sequences of length 0..={max_len_fixed} (first {n_fixed} expressions) resp. 0..={max_len_family} (family `v op f(g)` / `f(g) op v`, f a function, g a binary over other variables) over 0..=n (n = number of variables, so every sequence with an out-of-range entry at any position is included)"),
        "checks": ["out-of-range index anywhere => Err for partial_iter, partial_iter_relaxed (both modes), partial, partial_nth", "var_names(derivative) == var_names(antiderivative)",
            "partial_iter(seq) == sequential partial calls (solver, NRA)", "partial_nth(i,k) == k x partial(i)", "order 0 == identity", "mixed partials agree in either order (solver, NRA)"],
        "forms": ["flat", "deep"],
    }));
    finish(args, "C09", vec![part], vec![], json!({
        "functions": ["partial::check_partial_index", "Differentiate::{partial, partial_nth, partial_iter, partial_iter_relaxed, partial_nth_relaxed}", "DeepEx::var_names_union", "DeepEx::var_names_like_other", "partial::partial_deepex"],
        "assumptions": ["as C05 (reals, uninterpreted elementary functions with ground laws)", "'before any work is done' is observable only as Err"],
        "outside": ["expressions outside the pool", "sequences longer than the bound"],
    }))
}

// ---------------------------------------------------------------------------------------------
// C10 homomorphism
// ---------------------------------------------------------------------------------------------

#[derive(Clone, Debug)]
enum Step {
    Unary(&'static str),
    Binary(&'static str, usize),
    /// overloaded operators / helpers on DeepEx: + - * / pow neg
    Overloaded(&'static str, usize),
    Helper(&'static str),
}

fn apply_tree(t: &Tree, st: &Step, pool: &[Tree]) -> Tree {
    match st {
        Step::Unary(r) | Step::Helper(r) => Tree::un(k(r), t.clone()),
        Step::Binary(r, j) => Tree::bin(k(r), t.clone(), pool[*j].clone()),
        Step::Overloaded(r, j) => match *r {
            "neg" => Tree::un(k("-"), t.clone()),
            "pow" => Tree::bin(k("^"), t.clone(), pool[*j].clone()),
            _ => Tree::bin(k(r), t.clone(), pool[*j].clone()),
        },
    }
}

pub fn c10(args: &Args) -> i32 {
    let quick = args.tier_quick();
    let tab = default_float_table(true);
    table::set_table(&tab);
    let o = ops();
    // pool with overlapping and disjoint variable sets, constants 0 and 1, a symbolic-literal constant, and
    // constants that still carry variable names (derivatives of linear expressions)
    let pool: Vec<Tree> = vec![
        v("x"),
        Tree::bin(o.add, v("x"), v("y")),
        Tree::bin(o.mul, v("z"), l("2")),
        l("0"),
        l("1"),
        l("3"),
        Tree::un(k("sin"), v("y")),
        Tree::bin(o.div, v("a"), v("x")),
        Tree::bin(o.sub, l("1"), l("1")),
        Tree::bin(o.pow, v("x"), l("2")),
        Tree::un(k("-"), v("w")),
        Tree::bin(o.mul, l("0.5"), l("2")),
        Tree::bin(o.add, Tree::bin(o.add, v("a"), v("b")), v("c")),
        Tree::bin(o.mul, Tree::bin(o.mul, v("c"), v("d")), v("f")),
        Tree::bin(o.sub, Tree::bin(o.mul, v("b"), v("c")), v("g")),
        // a number first, a tighter operator, then a weaker one (an operand whose node list must stay a group when a
        // number is applied on its left)
        Tree::bin(o.add, Tree::bin(o.mul, l("2"), v("x")), v("y")),
        Tree::bin(o.sub, Tree::bin(o.pow, l("2"), v("x")), v("y")),
    ];
    let mut pool = pool;
    if !quick {
        pool.extend(vec![
            v("y"),
            Tree::bin(o.mul, v("x"), v("y")),
            Tree::bin(o.sub, v("y"), v("x")),
            Tree::bin(o.mul, Tree::un(k("cos"), v("x")), v("z")),
            Tree::bin(o.pow, Tree::bin(o.add, v("x"), l("1")), l("2")),
            l("2"),
            l("0.5"),
            Tree::bin(o.div, v("x"), Tree::bin(o.add, v("y"), l("1"))),
            Tree::un(k("sqrt"), v("a")),
            Tree::bin(o.mul, l("0"), v("x")),
            Tree::bin(o.add, Tree::bin(o.mul, v("a"), v("b")), v("x")),
            Tree::un(k("-"), Tree::un(k("-"), v("x"))),
        ]);
    }
    let texts: Vec<String> = pool.iter().map(|t| render(t, &Style::default())).collect();
    let unary_names: Vec<&'static str> = if quick { vec!["sin", "-", "exp", "abs"] } else { vec!["sin", "-", "exp", "abs", "cos", "ln", "sqrt", "+", "tanh", "floor"] };
    let binary_names: Vec<&'static str> = vec!["+", "-", "*", "/", "^", "atan2", "min"];
    let mut steps: Vec<Step> = vec![];
    for r in &unary_names {
        steps.push(Step::Unary(r));
    }
    for r in ["sin", "cos", "exp", "ln", "sqrt", "abs", "tanh"] {
        steps.push(Step::Helper(r));
    }
    for r in &binary_names {
        for j in 0..pool.len() {
            steps.push(Step::Binary(r, j));
        }
    }
    for r in ["+", "-", "*", "/", "pow"] {
        for j in 0..pool.len() {
            steps.push(Step::Overloaded(r, j));
        }
    }
    steps.push(Step::Overloaded("neg", 0));
    // histories: (start, step1[, step2])
    let mut items: Vec<(usize, Vec<Step>)> = vec![];
    let mut ctr = args.seed();
    for i in 0..pool.len() {
        for s1 in &steps {
            items.push((i, vec![s1.clone()]));
            for s2 in &steps {
                ctr += 1;
                if ctr % (if quick { 3 } else { 1 }) == 0 {
                    items.push((i, vec![s1.clone(), s2.clone()]));
                }
                if ctr % (if quick { 101 } else { 7 }) == 0 {
                    // three-step histories through the unary steps (chains of unary operators, double negation, ...)
                    for s3 in steps.iter().filter(|s| matches!(s, Step::Unary(_) | Step::Helper(_) | Step::Overloaded("neg", _))) {
                        items.push((i, vec![s1.clone(), s2.clone(), s3.clone()]));
                    }
                }
            }
        }
    }
    let _ = std::panic::take_hook();
    std::panic::set_hook(Box::new(|_| {}));
    let n_items = items.len();
    let run_pass = |exact: bool, items: &[(usize, Vec<Step>)]| {
        let tabc = tab.clone();
        let pool_c = pool.clone();
        let texts_c = texts.clone();
        par_calc(args, &tab, exact, items, &move |it: &(usize, Vec<Step>), _i, out: &mut CalcOut| {
            let (start, hist) = it;
            let mut reference = pool_c[*start].clone();
            for st in hist {
                reference = apply_tree(&reference, st, &pool_c);
            }
            let desc = format!("{} {:?}", texts_c[*start], hist);
            out.stats.programs += 1;
            out.stats.note_text(exact as u64, &desc);
            for form in ["flat", "deep"] {
                let (paths, truncated) = explore(32, || {
                    let mut res: Vec<(&'static str, String, String, String, BTreeMap<String, String>)> = vec![];
                    let run = catch_unwind(AssertUnwindSafe(|| -> exmex::ExResult<(Id, Vec<String>, Result<(Id, Vec<String>), String>)> {
                        // every history is executed on deep expressions (flat: converted at the boundary through Calculate)
                        if form == "deep" {
                            let mut e = Deep::<Sym, SymOps>::parse(&texts_c[*start])?;
                            for st in hist {
                                e = match st {
                                    Step::Unary(r) => e.operate_unary(r)?,
                                    Step::Helper(r) => match *r {
                                        "sin" => e.sin()?,
                                        "cos" => e.cos()?,
                                        "exp" => e.exp()?,
                                        "ln" => e.ln()?,
                                        "sqrt" => e.sqrt()?,
                                        "abs" => e.abs()?,
                                        _ => e.tanh()?,
                                    },
                                    Step::Binary(r, j) => e.operate_binary(Deep::<Sym, SymOps>::parse(&texts_c[*j])?, r)?,
                                    Step::Overloaded(r, j) => {
                                        let other = Deep::<Sym, SymOps>::parse(&texts_c[*j])?;
                                        match *r {
                                            "+" => (e + other)?,
                                            "-" => (e - other)?,
                                            "*" => (e * other)?,
                                            "/" => (e / other)?,
                                            "pow" => e.pow(other)?,
                                            _ => (-e)?,
                                        }
                                    }
                                };
                            }
                            let names = e.var_names().to_vec();
                            let val = e.eval(&vals(&names))?.0;
                            let printed = e.unparse().to_string();
                            let rp = Deep::<Sym, SymOps>::parse(&printed).map_err(|x| x.msg().to_string()).and_then(|r| {
                                let rn = r.var_names().to_vec();
                                r.eval(&vals(&rn)).map(|s| (s.0, rn)).map_err(|x| x.msg().to_string())
                            });
                            Ok((val, names, rp))
                        } else {
                            let mut e = Flat::<Sym, SymOps>::parse(&texts_c[*start])?;
                            for st in hist {
                                e = match st {
                                    Step::Unary(r) | Step::Helper(r) => e.operate_unary(r)?,
                                    Step::Binary(r, j) => e.operate_binary(Flat::<Sym, SymOps>::parse(&texts_c[*j])?, r)?,
                                    Step::Overloaded(r, j) => {
                                        // flat expressions have no overloaded operators: go through the deep form and back
                                        let d = e.to_deepex()?;
                                        let other = Flat::<Sym, SymOps>::parse(&texts_c[*j])?.to_deepex()?;
                                        let d2 = match *r {
                                            "+" => (d + other)?,
                                            "-" => (d - other)?,
                                            "*" => (d * other)?,
                                            "/" => (d / other)?,
                                            "pow" => d.pow(other)?,
                                            _ => (-d)?,
                                        };
                                        Flat::<Sym, SymOps>::from_deepex(d2)?
                                    }
                                };
                            }
                            let names = e.var_names().to_vec();
                            let val = e.eval(&vals(&names))?.0;
                            let printed = e.unparse().to_string();
                            let rp = Flat::<Sym, SymOps>::parse(&printed).map_err(|x| x.msg().to_string()).and_then(|r| {
                                let rn = r.var_names().to_vec();
                                r.eval(&vals(&rn)).map(|s| (s.0, rn)).map_err(|x| x.msg().to_string())
                            });
                            Ok((val, names, rp))
                        }
                    }));
                    let mut vcs = 0;
                    match run {
                        Err(p) => res.push(("panic", String::new(), String::new(), panic_msg(p), BTreeMap::new())),
                        Ok(Err(e)) => {
                            // 0^0 through pow is a documented error; every other application must succeed
                            let zero_pow_zero = e.msg().contains("base and exponent both zero");
                            if !zero_pow_zero {
                                res.push(("rejected", String::new(), String::new(), e.msg().to_string(), BTreeMap::new()));
                            }
                        }
                        Ok(Ok((val, names, rp))) => {
                            let ref_names = reference.var_names();
                            if names != ref_names {
                                res.push(("varnames", format!("{names:?}"), format!("{ref_names:?}"), "variable list is not the sorted union".into(), BTreeMap::new()));
                            }
                            let rf = reference.to_sym().0;
                            vcs += 1;
                            if val != rf {
                                // domain of the UNSIMPLIFIED form
                                let (vd, model) = decide_nra(val, rf, &[], true);
                                match vd {
                                    Verdict::Unsat => {}
                                    Verdict::Sat => res.push(("value", show_term(val), show_term(rf), "result differs from the operator applied to the operands' values".into(), model)),
                                    Verdict::Inconclusive => res.push(("inconclusive", show_term(val), show_term(rf), String::new(), BTreeMap::new())),
                                }
                            }
                            // C12: print and parse back
                            match rp {
                                Err(e) => res.push(("reparse", String::new(), String::new(), format!("printed result does not parse: {e}"), BTreeMap::new())),
                                Ok((rt, rn)) => {
                                    if rn.iter().any(|n| !names.contains(n)) {
                                        res.push(("reparse", format!("{rn:?}"), format!("{names:?}"), "printed result has other variables".into(), BTreeMap::new()));
                                    }
                                    if rt != val {
                                        let (vd, model) = decide_nra(rt, val, &[rf], true);
                                        match vd {
                                            Verdict::Unsat => {}
                                            Verdict::Sat => res.push(("reparse", show_term(rt), show_term(val), "printed result parses back to a different function".into(), model)),
                                            Verdict::Inconclusive => res.push(("inconclusive", show_term(rt), show_term(val), "reparse".into(), BTreeMap::new())),
                                        }
                                    }
                                }
                            }
                        }
                    }
                    (res, vcs)
                });
                if truncated {
                    out.truncated += 1;
                }
                out.paths += paths.len() as u64;
                out.forks += paths.iter().map(|p| p.trace.len() as u64).sum::<u64>();
                for p in paths {
                    out.stats.vcs += p.result.1;
                    for (kind, imp, rf, detail, model) in p.result.0 {
                        let mut f = mk_finding(kind, form, &tabc, &desc, Some(&reference), imp, rf, detail);
                        f.model = model;
                        if kind == "inconclusive" {
                            if out.findings.len() < 12 {
                                out.findings.push(f);
                            }
                        } else {
                            push(out, f);
                        }
                    }
                }
            }
            if out.samples.len() < 2 && out.stats.programs % 101 == 0 {
                out.samples.push(json!({"history": desc, "reference": reference.show()}));
            }
        })
    };
    let (o1, w1) = run_pass(true, &items);
    let sub: Vec<(usize, Vec<Step>)> = items.iter().filter(|(_, h)| h.len() == 1).cloned().collect();
    let (o2, w2) = run_pass(false, &sub);
    // unknown operator names are errors
    let t0 = Instant::now();
    let mut un = new_out();
    sym::set_exact_lits(true);
    for name in ["foo", "", "sinn", "SIN", "**", "min2"] {
        for txt in ["x", "x+y", "1"] {
            un.stats.programs += 1;
            un.stats.note_text(3, &format!("{name} {txt}"));
            sym::reset_arena();
            let r = catch_unwind(AssertUnwindSafe(|| {
                let a = Flat::<Sym, SymOps>::parse(txt).unwrap().operate_unary(name).is_err();
                let b2 = Flat::<Sym, SymOps>::parse(txt).unwrap().operate_binary(Flat::<Sym, SymOps>::parse("y").unwrap(), name).is_err();
                let c = Deep::<Sym, SymOps>::parse(txt).unwrap().operate_unary(name).is_err();
                let d = Deep::<Sym, SymOps>::parse(txt).unwrap().operate_binary(Deep::<Sym, SymOps>::parse("y").unwrap(), name).is_err();
                a && b2 && c && d
            }));
            match r {
                Ok(true) => {}
                Ok(false) => push(&mut un, mk_finding("missing-error", "operate_*", &tab, txt, None, String::new(), String::new(), format!("unknown operator name `{name}` was accepted"))),
                Err(p) => push(&mut un, mk_finding("panic", "operate_*", &tab, txt, None, String::new(), String::new(), panic_msg(p))),
            }
        }
    }
    // a unary-only name as binary and vice versa
    for (name, as_binary) in [("sin", true), ("*", false), ("PI", true), ("PI", false)] {
        un.stats.programs += 1;
        sym::reset_arena();
        let r = catch_unwind(AssertUnwindSafe(|| {
            if as_binary {
                Flat::<Sym, SymOps>::parse("x").unwrap().operate_binary(Flat::<Sym, SymOps>::parse("y").unwrap(), name).is_err()
            } else {
                Flat::<Sym, SymOps>::parse("x").unwrap().operate_unary(name).is_err()
            }
        }));
        match r {
            Ok(true) => {}
            Ok(false) => push(&mut un, mk_finding("missing-error", "operate_*", &tab, "x", None, String::new(), String::new(), format!("`{name}` applied in a role it does not have was accepted"))),
            Err(p) => push(&mut un, mk_finding("panic", "operate_*", &tab, "x", None, String::new(), String::new(), panic_msg(p))),
        }
    }
    sym::set_exact_lits(false);
    let _ = std::panic::take_hook();
    let p1 = to_part("histories-exact-literals", o1, w1, json!({
        "pool": texts, "histories": format!("{n_items}: every (start expression, step) plus every {}th (start, step, step) plus sampled (every 101st / 7th pair) (start, step, step, unary step); steps = operate_unary {:?}, named helpers sin cos exp ln sqrt abs tanh, operate_binary {:?} with every pool element, overloaded + - * / pow with every pool element, neg", if quick { 3 } else { 1 }, unary_names, binary_names),
        "forms": ["DeepEx (operate_*, helpers, overloaded operators)", "FlatEx (Calculate::operate_*; overloaded steps through to_deepex/from_deepex)"],
        "check": "var_names == sorted union; value == operator applied to operand values under the domain of the unsimplified form (solver, NRA); printed result parses back (C12)",
    }));
    let p2 = to_part("single-steps-symbolic-literals", o2, w2, json!({"histories": sub.len(), "literals": "free real constants: neutral-element shortcuts forked by the decision oracle"}));
    let p3 = to_part("unknown-operator-names", un, t0.elapsed().as_secs_f64(), json!({"names": ["foo", "", "sinn", "SIN", "**", "min2", "sin as binary", "* as unary", "PI"], "check": "Err from operate_unary / operate_binary on flat and deep (path-level)"}));
    finish(args, "C10", vec![p1, p2, p3], vec![], json!({
        "functions": ["Calculate::{operate_unary, operate_binary}", "DeepEx::{operate_bin, operate_unary, var_names_union, reset_vars, compile}", "deep::detail::operate_bin", "impl Add/Sub/Mul/Div/Neg for DeepEx", "DeepEx::pow", "DeepEx::{sin, cos, exp, ln, sqrt, abs, tanh}", "DeepEx::is_zero/is_one"],
        "assumptions": ["as C05 (reals; elementary functions uninterpreted)", "domain = side conditions of the unsimplified reference form (denominators != 0, base of a non-integer power > 0, 0^0 excluded)"],
        "outside": ["histories longer than 3", "pool members beyond the 12 listed", "bitwise/remainder overloads (no such operators in the float table)"],
    }))
}
