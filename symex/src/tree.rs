//! Expression trees (the reference semantics), their renderings to text, and enumerators.
use crate::sym::{self, Sym, BIN_FNS, UN_FNS};
use crate::table::{with_table, Table};
use std::str::FromStr;

#[derive(Clone, Debug, PartialEq, Eq, Hash)]
pub enum Tree {
    Lit(String),
    Var(String),
    Konst(u16),
    Un(u16, Box<Tree>),
    Bin(u16, Box<Tree>, Box<Tree>),
    /// explicit redundant parentheses around a subtree (semantically the identity)
    Paren(Box<Tree>),
    /// binary operator written in call form `op(a, b)` (semantically `Bin`)
    Call(u16, Box<Tree>, Box<Tree>),
}

impl Tree {
    pub fn paren(a: Tree) -> Tree {
        Tree::Paren(Box::new(a))
    }
    pub fn call(k: u16, a: Tree, b: Tree) -> Tree {
        Tree::Call(k, Box::new(a), Box::new(b))
    }
    pub fn bin(k: u16, a: Tree, b: Tree) -> Tree {
        Tree::Bin(k, Box::new(a), Box::new(b))
    }
    pub fn un(k: u16, a: Tree) -> Tree {
        Tree::Un(k, Box::new(a))
    }
    pub fn var(s: &str) -> Tree {
        Tree::Var(s.to_string())
    }
    pub fn lit(s: &str) -> Tree {
        Tree::Lit(s.to_string())
    }
    /// number of nodes
    pub fn size(&self) -> usize {
        match self {
            Tree::Un(_, a) | Tree::Paren(a) => 1 + a.size(),
            Tree::Bin(_, a, b) | Tree::Call(_, a, b) => 1 + a.size() + b.size(),
            _ => 1,
        }
    }
    pub fn n_leaves(&self) -> usize {
        match self {
            Tree::Un(_, a) | Tree::Paren(a) => a.n_leaves(),
            Tree::Bin(_, a, b) | Tree::Call(_, a, b) => a.n_leaves() + b.n_leaves(),
            _ => 1,
        }
    }
    pub fn n_bin(&self) -> usize {
        match self {
            Tree::Un(_, a) | Tree::Paren(a) => a.n_bin(),
            Tree::Bin(_, a, b) | Tree::Call(_, a, b) => 1 + a.n_bin() + b.n_bin(),
            _ => 0,
        }
    }
    /// distinct variable names in Rust string order (the documented order)
    pub fn var_names(&self) -> Vec<String> {
        let mut v = vec![];
        self.collect_vars(&mut v);
        v.sort();
        v.dedup();
        v
    }
    fn collect_vars(&self, out: &mut Vec<String>) {
        match self {
            Tree::Var(n) => out.push(n.clone()),
            Tree::Un(_, a) | Tree::Paren(a) => a.collect_vars(out),
            Tree::Bin(_, a, b) | Tree::Call(_, a, b) => {
                a.collect_vars(out);
                b.collect_vars(out);
            }
            _ => {}
        }
    }
    /// The reference term: the tree itself, built with the same term constructors the
    /// operator table hands to exmex.
    pub fn to_sym(&self) -> Sym {
        match self {
            Tree::Lit(t) => Sym::from_str(t).expect("literal"),
            Tree::Var(n) => Sym::var(n),
            Tree::Konst(k) => sym::mk(sym::Node::Konst(*k)),
            Tree::Un(k, a) => UN_FNS[*k as usize](a.to_sym()),
            Tree::Paren(a) => a.to_sym(),
            Tree::Bin(k, a, b) | Tree::Call(k, a, b) => {
                let x = a.to_sym();
                let y = b.to_sym();
                BIN_FNS[*k as usize](x, y)
            }
        }
    }
    /// operators (by table index) occurring: (unary, binary)
    pub fn ops_used(&self, un: &mut Vec<u16>, bin: &mut Vec<u16>) {
        match self {
            Tree::Un(k, a) => {
                un.push(*k);
                a.ops_used(un, bin);
            }
            Tree::Paren(a) => a.ops_used(un, bin),
            Tree::Bin(k, a, b) | Tree::Call(k, a, b) => {
                bin.push(*k);
                a.ops_used(un, bin);
                b.ops_used(un, bin);
            }
            _ => {}
        }
    }
    pub fn has_var(&self) -> bool {
        match self {
            Tree::Var(_) => true,
            Tree::Un(_, a) | Tree::Paren(a) => a.has_var(),
            Tree::Bin(_, a, b) | Tree::Call(_, a, b) => a.has_var() || b.has_var(),
            _ => false,
        }
    }
    pub fn to_json(&self) -> serde_json::Value {
        use serde_json::json;
        match self {
            Tree::Lit(t) => json!({"lit": t}),
            Tree::Var(n) => json!({"var": n}),
            Tree::Konst(k) => json!({"konst": k}),
            Tree::Un(k, a) => json!({"un": k, "a": a.to_json()}),
            Tree::Bin(k, a, b) => json!({"bin": k, "a": a.to_json(), "b": b.to_json()}),
            Tree::Paren(a) => json!({"paren": a.to_json()}),
            Tree::Call(k, a, b) => json!({"call": k, "a": a.to_json(), "b": b.to_json()}),
        }
    }
    pub fn from_json(v: &serde_json::Value) -> Tree {
        if let Some(t) = v.get("lit") {
            Tree::Lit(t.as_str().unwrap().to_string())
        } else if let Some(t) = v.get("var") {
            Tree::Var(t.as_str().unwrap().to_string())
        } else if let Some(k) = v.get("konst") {
            Tree::Konst(k.as_u64().unwrap() as u16)
        } else if let Some(a) = v.get("paren") {
            Tree::paren(Tree::from_json(a))
        } else if let Some(k) = v.get("call") {
            Tree::call(k.as_u64().unwrap() as u16, Tree::from_json(&v["a"]), Tree::from_json(&v["b"]))
        } else if let Some(k) = v.get("un") {
            Tree::un(k.as_u64().unwrap() as u16, Tree::from_json(&v["a"]))
        } else {
            Tree::bin(v["bin"].as_u64().unwrap() as u16, Tree::from_json(&v["a"]), Tree::from_json(&v["b"]))
        }
    }
    pub fn show(&self) -> String {
        match self {
            Tree::Lit(t) => t.clone(),
            Tree::Var(n) => n.clone(),
            Tree::Konst(k) => crate::table::repr_of(*k),
            Tree::Un(k, a) => format!("{}[{}]", crate::table::repr_of(*k), a.show()),
            Tree::Bin(k, a, b) | Tree::Call(k, a, b) => format!("({} {} {})", a.show(), crate::table::repr_of(*k), b.show()),
            Tree::Paren(a) => a.show(),
        }
    }
}

/// Rendering options. Every rendering of a tree denotes that tree under the documented rules:
/// parentheses first, unary tighter than binary and right-to-left, binary by descending priority,
/// left-to-right among equals.
#[derive(Clone, Debug, Default, PartialEq)]
pub struct Style {
    /// blanks around every token
    pub space: bool,
    /// `{x}` instead of `x`
    pub brace_vars: bool,
    /// redundant parentheses around every subtree
    pub paren_all: bool,
    /// redundant parentheses around the n-th subtree (preorder)
    pub paren_at: Option<usize>,
    /// how many redundant pairs `paren_at` adds
    pub paren_depth: usize,
    /// `u(x)` instead of `u x` for unary operators over leaves/unaries
    pub unary_paren: bool,
    /// bit i set: the i-th binary node (preorder) is rendered in call form `op(a, b)` (alphabetic operators only)
    pub call_mask: u32,
    /// no parentheses between a unary operator and a following call-form group
    pub bare_unary_call: bool,
}

fn is_alpha_repr(r: &str) -> bool {
    r.chars().next().map(|c| c.is_alphabetic() || c == '_').unwrap_or(false)
}
fn is_ident(s: &str) -> bool {
    let mut cs = s.chars();
    match cs.next() {
        Some(c) if c.is_ascii_alphabetic() || c == '_' || ('α'..='ω').contains(&c) || ('Α'..='Ω').contains(&c) => {}
        _ => return false,
    }
    cs.all(|c| c.is_ascii_alphanumeric() || c == '_' || ('α'..='ω').contains(&c) || ('Α'..='Ω').contains(&c))
}

struct Renderer<'a> {
    t: &'a Table,
    st: &'a Style,
    node_ctr: usize,
    bin_ctr: u32,
}

impl Renderer<'_> {
    fn prio(&self, k: u16) -> i64 {
        self.t.ops[k as usize].bin.expect("bin").0
    }
    fn repr(&self, k: u16) -> &'static str {
        self.t.ops[k as usize].repr
    }
    /// returns (text, is_self_delimiting_group, top binary op if rendered infix)
    fn go(&mut self, t: &Tree) -> (String, Option<u16>) {
        let my_idx = self.node_ctr;
        self.node_ctr += 1;
        let (mut s, mut top): (String, Option<u16>) = match t {
            Tree::Lit(x) => (x.clone(), None),
            Tree::Var(n) => {
                if self.st.brace_vars || !is_ident(n) {
                    (format!("{{{n}}}"), None)
                } else {
                    (n.clone(), None)
                }
            }
            Tree::Konst(k) => (self.repr(*k).to_string(), None),
            Tree::Paren(a) => {
                let (inner, _) = self.go(a);
                (if self.st.space { format!("( {inner} )") } else { format!("({inner})") }, None)
            }
            Tree::Call(k, l, r) => {
                let repr = self.repr(*k);
                self.bin_ctr += 1;
                let (ls, _) = self.go(l);
                let (rs, _) = self.go(r);
                let sep = if self.st.space { " , " } else { ", " };
                let (o, c) = if self.st.space { (" ( ", " )") } else { ("(", ")") };
                (format!("{repr}{o}{ls}{sep}{rs}{c}"), None)
            }
            Tree::Un(k, a) => {
                let r = self.repr(*k);
                let a_is_call = matches!(**a, Tree::Call(..)) || matches!(**a, Tree::Bin(kk, _, _) if is_alpha_repr(self.repr(kk)) && (self.st.call_mask >> self.bin_ctr) & 1 == 1);
                let (inner, inner_top) = self.go(a);
                let needs = inner_top.is_some();
                let txt = if needs || (self.st.unary_paren && !(a_is_call)) || (a_is_call && !self.st.bare_unary_call) {
                    if self.st.space {
                        format!("{r} ( {inner} )")
                    } else {
                        format!("{r}({inner})")
                    }
                } else {
                    let first = inner.chars().next().unwrap();
                    let sep = if self.st.space || (is_alpha_repr(r) && (first.is_alphanumeric() || first == '_' || first == '.')) {
                        " "
                    } else {
                        ""
                    };
                    format!("{r}{sep}{inner}")
                };
                (txt, None)
            }
            Tree::Bin(k, l, r) => {
                let repr = self.repr(*k);
                let call = is_alpha_repr(repr) && (self.st.call_mask >> self.bin_ctr) & 1 == 1;
                self.bin_ctr += 1;
                let (ls, ltop) = self.go(l);
                let (rs, rtop) = self.go(r);
                if call {
                    let sep = if self.st.space { " , " } else { ", " };
                    let (o, c) = if self.st.space { (" ( ", " )") } else { ("(", ")") };
                    (format!("{repr}{o}{ls}{sep}{rs}{c}"), None)
                } else {
                    let p = self.prio(*k);
                    let ls = match ltop {
                        Some(kl) if self.prio(kl) < p => format!("({ls})"),
                        _ => ls,
                    };
                    let rs = match rtop {
                        Some(kr) if self.prio(kr) <= p => format!("({rs})"),
                        _ => rs,
                    };
                    let sep = if self.st.space || is_alpha_repr(repr) { " " } else { "" };
                    (format!("{ls}{sep}{repr}{sep}{rs}"), Some(*k))
                }
            }
        };
        let extra = if self.st.paren_all { 1 } else { 0 }
            + if self.st.paren_at == Some(my_idx) { self.st.paren_depth.max(1) } else { 0 };
        for _ in 0..extra {
            s = if self.st.space { format!("( {s} )") } else { format!("({s})") };
            top = None;
        }
        (s, top)
    }
}

pub fn render(t: &Tree, st: &Style) -> String {
    with_table(|tab| {
        let mut r = Renderer { t: tab, st, node_ctr: 0, bin_ctr: 0 };
        r.go(t).0
    })
}

/// All binary tree skeletons with `n` leaves; leaves are placeholders numbered left to right,
/// binary nodes numbered in preorder.
#[derive(Clone, Debug)]
pub enum Skel {
    Leaf,
    Node(Box<Skel>, Box<Skel>),
}

pub fn skeletons(n: usize) -> Vec<Skel> {
    if n == 1 {
        return vec![Skel::Leaf];
    }
    let mut out = vec![];
    for l in 1..n {
        for a in skeletons(l) {
            for b in skeletons(n - l) {
                out.push(Skel::Node(Box::new(a.clone()), Box::new(b)));
            }
        }
    }
    out
}

/// Fills a skeleton: `ops[i]` for the i-th binary node (preorder), `leaves[j]` for the j-th leaf.
pub fn fill(s: &Skel, ops: &[u16], leaves: &[Tree]) -> Tree {
    fn go(s: &Skel, ops: &[u16], leaves: &[Tree], oi: &mut usize, li: &mut usize) -> Tree {
        match s {
            Skel::Leaf => {
                let t = leaves[*li].clone();
                *li += 1;
                t
            }
            Skel::Node(a, b) => {
                let k = ops[*oi];
                *oi += 1;
                let x = go(a, ops, leaves, oi, li);
                let y = go(b, ops, leaves, oi, li);
                Tree::bin(k, x, y)
            }
        }
    }
    go(s, ops, leaves, &mut 0, &mut 0)
}

/// mixed-radix counter helper: all vectors in `{0..radix}^len`
pub fn tuples(radix: usize, len: usize) -> Vec<Vec<usize>> {
    let mut out = vec![vec![]];
    for _ in 0..len {
        let mut next = vec![];
        for v in &out {
            for d in 0..radix {
                let mut w = v.clone();
                w.push(d);
                next.push(w);
            }
        }
        out = next;
    }
    out
}

/// Applies `chain` (outermost first) of unary operators at the `pos`-th node (preorder) of the tree.
pub fn decorate(t: &Tree, pos: usize, chain: &[u16]) -> Tree {
    fn go(t: &Tree, pos: usize, chain: &[u16], ctr: &mut usize) -> Tree {
        let me = *ctr;
        *ctr += 1;
        let inner = match t {
            Tree::Un(k, a) => Tree::un(*k, go(a, pos, chain, ctr)),
            Tree::Paren(a) => Tree::paren(go(a, pos, chain, ctr)),
            Tree::Bin(k, a, b) => {
                let x = go(a, pos, chain, ctr);
                let y = go(b, pos, chain, ctr);
                Tree::bin(*k, x, y)
            }
            Tree::Call(k, a, b) => {
                let x = go(a, pos, chain, ctr);
                let y = go(b, pos, chain, ctr);
                Tree::call(*k, x, y)
            }
            other => other.clone(),
        };
        if me == pos {
            chain.iter().rev().fold(inner, |acc, k| Tree::un(*k, acc))
        } else {
            inner
        }
    }
    go(t, pos, chain, &mut 0)
}

/// A small deterministic PRNG (splitmix64) for seeded slices.
#[derive(Clone)]
pub struct Rng(pub u64);
impl Rng {
    pub fn next(&mut self) -> u64 {
        self.0 = self.0.wrapping_add(0x9E3779B97F4A7C15);
        let mut z = self.0;
        z = (z ^ (z >> 30)).wrapping_mul(0xBF58476D1CE4E5B9);
        z = (z ^ (z >> 27)).wrapping_mul(0x94D049BB133111EB);
        z ^ (z >> 31)
    }
    pub fn below(&mut self, n: usize) -> usize {
        (self.next() % n as u64) as usize
    }
    pub fn chance(&mut self, num: u64, den: u64) -> bool {
        self.next() % den < num
    }
}
