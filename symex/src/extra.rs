//! Further program families and path-level sub-checks of engine S.
use crate::families::{self, GenCfg, OpsSel, Program};
use crate::oracle;
use crate::pipelines::{self, Deep, Flat};
use crate::props::{finish, gen_cfg, mk_sweep, Part};
use crate::smt::Theory;
use crate::sweep::{self, table_from_json, Finding, RunResult, Stats, SweepOut};
use crate::sym::{self, Sym};
use crate::table::{self, OpSpec, SymOps, Table};
use crate::tree::{render, tuples, Style, Tree};
use crate::Args;
use exmex::prelude::*;
use exmex::{FloatOpsFactory, MakeOperators, Operator, ValOpsFactory};
use serde_json::{json, Value};
use std::collections::BTreeMap;
use std::panic::{catch_unwind, AssertUnwindSafe};
use std::time::Instant;

/// Copies repr, prio, is_commutative and capabilities from a real operator table.
pub fn transplant<T: Clone>(ops: Vec<Operator<'static, T>>, not_really_ac: Vec<&'static str>, arithmetic: bool) -> Table {
    Table {
        ops: ops
            .iter()
            .map(|o| OpSpec {
                repr: o.repr(),
                bin: o.bin().ok().map(|b| (b.prio, b.is_commutative)),
                unary: o.has_unary(),
                konst: o.constant().is_some(),
            })
            .collect(),
        arithmetic,
        not_really_ac,
    }
}

pub fn default_float_table(arithmetic: bool) -> Table {
    transplant(FloatOpsFactory::<f64>::make(), vec![], arithmetic)
}
pub fn val_table() -> Table {
    // every flagged operator is interpreted as AC: that is what C01/C16 state (regrouping of a flagged operator
    // is permitted whenever it would be invisible if the operator really were associative and commutative)
    transplant(ValOpsFactory::<i32, f64>::make(), vec![], false)
}

fn idx(t: &Table, r: &str) -> u16 {
    t.ops.iter().position(|o| o.repr == r).unwrap_or_else(|| panic!("no operator {r}")) as u16
}

pub fn empty_out() -> SweepOut {
    SweepOut { stats: Stats::default(), findings: vec![], samples: vec![], wall_s: 0.0 }
}

pub fn mk_finding(kind: &'static str, pipeline: &str, tab: &Table, text: &str, tree: Option<&Tree>, imp: String, rf: String, detail: String) -> Finding {
    Finding {
        kind,
        pipeline: pipeline.to_string(),
        table: tab.clone(),
        text: text.to_string(),
        tree: tree.map(|t| t.show()).unwrap_or_default(),
        impl_term: imp,
        ref_term: rf,
        detail,
        model: BTreeMap::new(),
        confirmed: None,
        concrete: Value::Null,
        tree_json: tree.map(|t| t.to_json()).unwrap_or(Value::Null),
    }
}

/// C01 thorough / C16: trees over a transplanted real table
pub fn part_transplant(args: &Args, pls: &[&'static str], name: &'static str, tab: Table, bins: &[&str], u1: &str, u2: &str, sign: &str, konst: &str) -> Part {
    let quick = args.tier_quick();
    let sel = OpsSel { bins: bins.iter().map(|r| idx(&tab, r)).collect(), u1: idx(&tab, u1), u2: idx(&tab, u2), sign: idx(&tab, sign), konst: idx(&tab, konst) };
    let cfg = GenCfg {
        exh_leaves: if quick { 2 } else { 3 },
        sampled_leaves: if quick { vec![(3, 3)] } else { vec![(4, 40)] },
        dec_leaves: if quick { 2 } else { 3 },
        dec_stride: if quick { 2 } else { 8 },
        style_leaves: 2,
        style_stride: 2,
        call_forms: true,
        seed: args.seed(),
    };
    // work split: one pseudo-table per chunk of the program list so that all threads are used
    let n_chunks = 16;
    let tables = vec![tab.clone(); n_chunks];
    let gen = move |ti: usize, _t: &Table| -> Vec<Program> {
        let all = families::tree_programs_sel(&cfg, 0, &sel);
        all.into_iter().enumerate().filter(|(i, _)| i % n_chunks == ti).map(|(_, p)| p).collect()
    };
    let sc = mk_sweep(args, tables, &gen, pls.to_vec(), 64);
    let out = sweep::sweep(&sc);
    let bounds = json!({
        "table": format!("metadata (repr, prio, is_commutative, capabilities) copied at run time from the real {name}; function bodies replaced by term constructors"),
        "binary_operators_used": bins, "unary": [u1, u2, sign],
        "trees": if quick { "all trees with <=2 operands, 3 operands every 3rd, unary chains every 2nd" } else { "all trees with <=3 operands, 4 operands every 40th, unary chains every 8th" },
        "pipelines": pls,
    });
    Part { name, out, bounds }
}

pub fn part_default_table(args: &Args, pls: &[&'static str]) -> Part {
    part_transplant(args, pls, "FloatOpsFactory<f64>", default_float_table(false), &["^", "*", "/", "+", "-", "atan2", "min", "max"], "sin", "ln", "-", "PI")
}
pub fn part_val_table(args: &Args, pls: &[&'static str]) -> Part {
    part_transplant(args, pls, "ValOpsFactory<i32,f64>", val_table(), &["+", "-", "*", "/", "%", "==", "<", "if", "else", "&&", "|", "XOR", "^", "dot", "<<"], "abs", "to_int", "-", "PI")
}

/// Raw token sequences: no reference tree; pipelines are compared with the first one.
pub fn part_raw_differential(args: &Args, prop: &str) -> Part {
    let quick = args.tier_quick();
    let (max_len, stride) = if quick { (6, 24) } else { (7, 12) };
    let pls: Vec<&'static str> = match prop {
        "C02" => vec!["flat_wo", "flat", "flat_recompile"],
        _ => vec!["flat", "deep", "flat>deep", "deep>flat", "flat>deep>flat"],
    };
    let mut tables = vec![];
    for (ranks, flags) in [([0usize, 0, 0], 0u8), ([0, 0, 0], 7), ([0, 1, 2], 0), ([2, 1, 0], 5), ([1, 0, 1], 3), ([0, 0, 1], 6), ([1, 1, 0], 1), ([2, 0, 1], 7)] {
        tables.push(families::generic_table(&ranks, 0, flags, true));
    }
    let seed = args.seed();
    let n_tables = tables.len();
    let gen = move |ti: usize, _t: &Table| -> Vec<Program> {
        families::raw_sequences(max_len, stride, seed.wrapping_add(ti as u64 * 7919))
            .iter()
            .map(|s| Program { tree: None, text: families::raw_text(s, " "), class: "raw" })
            .collect()
    };
    let mut sc = mk_sweep(args, tables, &gen, pls.clone(), 64);
    sc.acceptance_must_agree = prop == "C02";
    let out = sweep::sweep(&sc);
    let bounds = json!({
        "alphabet": families::RAW_ALPHABET,
        "sequences": format!("all token sequences of length <=4, lengths 5..={max_len} every {stride}th (offset by VERIF_SEED), joined by blanks"),
        "tables": n_tables,
        "compared": format!("{} vs {:?}: equal variable lists, solver-decided equal values for every string the base pipeline accepts", pls[0], &pls[1..]),
    });
    Part { name: "raw-differential", out, bounds }
}

/// Operator listings of flat and deep form against the operators of the tree (concrete strings).
pub fn listings_check(args: &Args) -> (Vec<Finding>, Value) {
    let quick = args.tier_quick();
    let mut findings = vec![];
    let mut n = 0u64;
    let mut n_equal_required = 0u64;
    let mut tables: Vec<Table> = families::generic_tables(true, false).into_iter().step_by(if quick { 13 } else { 3 }).collect();
    // alphabetic binary operator `min` sorts between the unary `cos` and `sin`; `^`-like symbols after `-`
    tables.extend(families::generic_tables(true, true).into_iter().step_by(if quick { 13 } else { 3 }));
    let cfg = gen_cfg(true, args.seed(), false);
    let _ = std::panic::take_hook();
    std::panic::set_hook(Box::new(|_| {}));
    for tab in &tables {
        table::set_table(tab);
        for p in families::tree_programs(&cfg, 1) {
            sym::reset_arena();
            let tree = p.tree.as_ref().unwrap();
            let r = catch_unwind(AssertUnwindSafe(|| pipelines::listings::<Sym, SymOps>(&p.text)));
            let l = match r {
                Ok(Ok(l)) => l,
                Ok(Err(e)) => {
                    findings.push(mk_finding("rejected", "listings", tab, &p.text, Some(tree), String::new(), String::new(), e.msg().to_string()));
                    continue;
                }
                Err(_) => {
                    findings.push(mk_finding("panic", "listings", tab, &p.text, Some(tree), String::new(), String::new(), "panic in operator listing".into()));
                    continue;
                }
            };
            n += 1;
            // expected sets
            let mut un_all = vec![];
            let mut bin_all = vec![];
            tree.ops_used(&mut un_all, &mut bin_all);
            let repr = |k: &u16| tab.ops[*k as usize].repr.to_string();
            let un_all: Vec<String> = un_all.iter().map(repr).collect();
            let bin_all: Vec<String> = bin_all.iter().map(repr).collect();
            let mut un_must = vec![];
            let mut bin_must = vec![];
            let mut all_dep = true;
            fn walk(t: &Tree, un: &mut Vec<u16>, bin: &mut Vec<u16>, all_dep: &mut bool) {
                match t {
                    Tree::Un(k, a) => {
                        if a.has_var() {
                            un.push(*k)
                        } else {
                            *all_dep = false
                        }
                        walk(a, un, bin, all_dep);
                    }
                    Tree::Paren(a) => walk(a, un, bin, all_dep),
                    Tree::Bin(k, a, b) | Tree::Call(k, a, b) => {
                        if a.has_var() || b.has_var() {
                            bin.push(*k)
                        } else {
                            *all_dep = false
                        }
                        walk(a, un, bin, all_dep);
                        walk(b, un, bin, all_dep);
                    }
                    _ => {}
                }
            }
            walk(tree, &mut un_must, &mut bin_must, &mut all_dep);
            let un_must: Vec<String> = un_must.iter().map(repr).collect();
            let bin_must: Vec<String> = bin_must.iter().map(repr).collect();
            let mut complain = |what: &str, got: &Vec<String>| {
                if findings.len() < 40 {
                    findings.push(mk_finding("listing", "listings", tab, &p.text, Some(tree), format!("{got:?}"), String::new(), what.to_string()));
                }
            };
            for (form, (u, b, o)) in [("flat", &l.flat), ("deep", &l.deep)] {
                for (lst, name) in [(u, "unary_reprs"), (b, "binary_reprs"), (o, "operator_reprs")] {
                    let mut sorted = lst.clone();
                    sorted.sort();
                    sorted.dedup();
                    if &sorted != lst {
                        complain(&format!("{form}.{name} not sorted/duplicate-free"), lst);
                    }
                }
                if let Some(x) = u.iter().find(|x| !un_all.contains(x)) {
                    complain(&format!("{form}.unary_reprs lists {x} which is not a unary operator of the text"), u);
                }
                if let Some(x) = b.iter().find(|x| !bin_all.contains(x)) {
                    complain(&format!("{form}.binary_reprs lists {x} which is not a binary operator of the text"), b);
                }
                if let Some(x) = un_must.iter().find(|x| !u.contains(x)) {
                    complain(&format!("{form}.unary_reprs misses {x} applied to a variable-dependent operand"), u);
                }
                if let Some(x) = bin_must.iter().find(|x| !b.contains(x)) {
                    complain(&format!("{form}.binary_reprs misses {x} applied to a variable-dependent operand"), b);
                }
                let mut union: Vec<String> = u.iter().chain(b.iter()).cloned().collect();
                union.sort();
                union.dedup();
                if &union != o {
                    complain(&format!("{form}.operator_reprs is not the union of unary and binary listings"), o);
                }
            }
            if all_dep {
                n_equal_required += 1;
                if l.flat != l.deep {
                    complain("flat and deep listings differ although no variable-free operator sub-expression exists", &l.flat.2);
                }
            }
        }
    }
    let _ = std::panic::take_hook();
    (findings, json!({"programs": n, "flat_equals_deep_required_on": n_equal_required, "tables": tables.len(), "note": "path-level assertions on concrete strings (nothing symbolic)"}))
}

/// C08: deeper call nesting over two alphabetic operators.
pub fn part_call_nesting(args: &Args, pls: &[&'static str]) -> Part {
    let quick = args.tier_quick();
    let max_leaves = if quick { 4 } else { 5 };
    let mut tables = vec![];
    for (pmin, pmax, pminus) in [(0, 0, 1), (1, 0, 0), (0, 2, 1), (2, 2, 2), (3, 1, 2)] {
        for flags in [0u8, 3] {
            tables.push(Table {
                ops: vec![
                    OpSpec::bin("min", pmin, flags & 1 != 0),
                    OpSpec::bin("max", pmax, flags & 2 != 0),
                    OpSpec::dual("-", pminus, false),
                    OpSpec::un("sin"),
                    OpSpec::un("cos"),
                    OpSpec::konst("PI"),
                    OpSpec::bin("atan2", 0, false),
                ],
                arithmetic: false,
                not_really_ac: vec![],
            });
        }
    }
    let seed = args.seed();
    let gen = move |ti: usize, _t: &Table| -> Vec<Program> {
        let mut out = vec![];
        let mut ctr = seed.wrapping_add(ti as u64);
        for n in 2..=max_leaves {
            for sk in crate::tree::skeletons(n) {
                for ops in tuples(3, n - 1) {
                    // operators: 0 = min, 1 = max, 6 = atan2 (all alphabetic)
                    let ops: Vec<u16> = ops.iter().map(|&i| [0u16, 1, 6][i]).collect();
                    let leaves: Vec<Tree> = (0..n).map(|i| if (i + ops[0] as usize) % 3 == 2 { Tree::lit(families::LITS[i]) } else { Tree::var(["x", "y", "z"][i % 3]) }).collect();
                    let base = crate::tree::fill(&sk, &ops, &leaves);
                    let nb = (n - 1) as u32;
                    for mask in 1..(1u32 << nb) {
                        ctr += 1;
                        if n >= 5 && ctr % 4 != 0 {
                            continue;
                        }
                        for st in [
                            Style { call_mask: mask, ..Default::default() },
                            Style { call_mask: mask, space: true, ..Default::default() },
                            Style { call_mask: mask, paren_all: true, ..Default::default() },
                        ] {
                            out.push(Program { tree: Some(base.clone()), text: render(&base, &st), class: "call-nesting" });
                        }
                        // under unary functions and signs, as operand of an infix operator
                        let t2 = Tree::un(3, base.clone());
                        out.push(Program { text: render(&t2, &Style { call_mask: mask, bare_unary_call: true, ..Default::default() }), tree: Some(t2), class: "call-under-unary" });
                        let t3 = Tree::bin(2, Tree::un(2, base.clone()), Tree::var("w"));
                        out.push(Program { text: render(&t3, &Style { call_mask: mask << 1, ..Default::default() }), tree: Some(t3), class: "call-as-operand" });
                        let t4 = Tree::bin(2, Tree::var("w"), base.clone());
                        out.push(Program { text: render(&t4, &Style { call_mask: mask << 1, ..Default::default() }), tree: Some(t4), class: "call-as-operand" });
                    }
                }
            }
        }
        out
    };
    let sc = mk_sweep(args, tables, &gen, pls.to_vec(), 64);
    let ntab = sc.tables.len();
    let out = sweep::sweep(&sc);
    let bounds = json!({
        "tables": ntab,
        "trees": format!("all tree shapes with 2..={max_leaves} operands over the alphabetic binary operators min, max, atan2 (5 priority patterns x 2 flag patterns), every non-empty subset of binary nodes in call form (5 operands: every 4th), plain/blank/fully parenthesised renderings, under sin, under a sign, as left and right operand of infix `-`"),
        "nesting_depth": max_leaves - 1,
        "pipelines": pls,
    });
    Part { name: "call-nesting", out, bounds }
}

/// C08: calls whose arguments are infix expressions that themselves contain calls, parenthesised
/// groups and unary functions (`f(a, g(b, c) * (d) + e)`), embedded as operands.
pub fn part_call_in_infix(args: &Args, pls: &[&'static str]) -> Part {
    let quick = args.tier_quick();
    let mut tables = vec![];
    for (pmin, pmax, pminus, ppct, pstar, fl) in [(0, 0, 1, 2, 2, 0u8), (1, 0, 0, 0, 3, 3), (0, 2, 1, 1, 0, 1), (2, 2, 2, 2, 2, 2), (3, 1, 2, 0, 1, 0), (0, 0, 0, 1, 2, 3)] {
        tables.push(Table {
            ops: vec![
                OpSpec::bin("min", pmin, fl & 1 != 0),
                OpSpec::bin("max", pmax, fl & 2 != 0),
                OpSpec::dual("-", pminus, false),
                OpSpec::un("sin"),
                OpSpec::un("cos"),
                OpSpec::konst("PI"),
                OpSpec::bin("atan2", 0, false),
                OpSpec::bin("%", ppct, false),
                OpSpec::bin("*", pstar, fl & 2 != 0),
            ],
            arithmetic: false,
            not_really_ac: vec![],
        });
    }
    let seed = args.seed();
    let gen = move |ti: usize, _t: &Table| -> Vec<Program> {
        let (min, max, minus, sin, atan2, pct, star) = (0u16, 1u16, 2u16, 3u16, 6u16, 7u16, 8u16);
        let form = |k: usize, i: usize| -> Tree {
            let v = Tree::var(["x", "y", "z"][i % 3]);
            let l = Tree::lit(families::LITS[i % 8]);
            match k {
                0 => v,
                1 => l,
                2 => Tree::paren(v),
                3 => Tree::call(if i % 2 == 0 { min } else { atan2 }, v, l),
                4 => Tree::paren(Tree::call(max, l, v)),
                5 => Tree::un(sin, v),
                6 => Tree::un(sin, Tree::call(min, v.clone(), v)),
                7 => Tree::un(minus, Tree::paren(v)),
                // symbolic operators in call form: every binary operator may be written in call form
                8 => Tree::call(pct, v, l),
                _ => Tree::call(if i % 2 == 0 { minus } else { star }, l, v),
            }
        };
        let infix = [pct, minus, star];
        let mut es: Vec<Tree> = vec![];
        for k in 0..10 {
            es.push(form(k, 0));
        }
        for k1 in 0..10 {
            for k2 in 0..10 {
                for o in infix {
                    es.push(families::chain_to_tree(&[form(k1, 0), form(k2, 1)], &[o]));
                }
            }
        }
        let mut ctr = seed.wrapping_add(ti as u64 * 31);
        for k1 in 0..10 {
            for k2 in 0..10 {
                for k3 in 0..10 {
                    for (o1, o2) in [(pct, minus), (minus, pct), (star, minus), (minus, minus), (minus, star), (pct, pct)] {
                        ctr += 1;
                        if quick && ctr % 3 != 0 {
                            continue;
                        }
                        es.push(families::chain_to_tree(&[form(k1, 0), form(k2, 1), form(k3, 2)], &[o1, o2]));
                    }
                }
            }
        }
        let mut firsts: Vec<Tree> = (0..10).map(|k| form(k, 2)).collect();
        firsts.push(families::chain_to_tree(&[form(3, 1), form(2, 2)], &[minus]));
        firsts.push(families::chain_to_tree(&[form(0, 1), form(4, 2)], &[star]));
        let mut out = vec![];
        for (ei, e) in es.iter().enumerate() {
            for (ai, a) in firsts.iter().enumerate() {
                ctr += 1;
                if false {
                    continue;
                }
                let f = if (ei + ai) % 2 == 0 { max } else { min };
                let t = Tree::call(f, a.clone(), e.clone());
                out.push(Program { text: render(&t, &Style::default()), tree: Some(t.clone()), class: "call-in-infix" });
                match ctr % 8 {
                    0 => {
                        let t2 = Tree::bin(pct, t.clone(), Tree::var("w"));
                        out.push(Program { text: render(&t2, &Style::default()), tree: Some(t2), class: "call-in-infix-embedded" });
                    }
                    1 => {
                        let t2 = Tree::bin(minus, Tree::var("w"), t.clone());
                        out.push(Program { text: render(&t2, &Style { space: true, ..Default::default() }), tree: Some(t2), class: "call-in-infix-embedded" });
                    }
                    2 => {
                        let t2 = Tree::un(sin, t.clone());
                        out.push(Program { text: render(&t2, &Style { bare_unary_call: true, ..Default::default() }), tree: Some(t2), class: "call-in-infix-embedded" });
                    }
                    3 => {
                        // the call in the first argument of another call and in the second
                        let t2 = Tree::call(atan2, t.clone(), Tree::var("w"));
                        out.push(Program { text: render(&t2, &Style::default()), tree: Some(t2), class: "call-in-infix-embedded" });
                        let t3 = Tree::call(atan2, Tree::lit("9"), t.clone());
                        out.push(Program { text: render(&t3, &Style::default()), tree: Some(t3), class: "call-in-infix-embedded" });
                    }
                    _ => {}
                }
            }
        }
        out
    };
    let sc = mk_sweep(args, tables, &gen, pls.to_vec(), 64);
    let ntab = sc.tables.len();
    let out = sweep::sweep(&sc);
    let bounds = json!({
        "tables": ntab,
        "programs": "f(A, E): E = infix chain of 1..3 operands over % - * , each operand one of {variable, literal, (variable), g(v, l), (g(l, v)), sin v, sin g(v, v), -(v), %(v, l), -(l, v) or *(l, v)}; A = one such operand or a 2-operand chain; f, g in {min, max, atan2}; embedded plain, as left/right operand, under sin, as first/second argument of another call (quick: every 3rd)",
        "pipelines": pls,
    });
    Part { name: "call-in-infix", out, bounds }
}

/// C12: a flat expression obtained by parsing prints exactly its source text (string equality).
pub fn part_unparse_identity(args: &Args) -> Part {
    let t0 = Instant::now();
    let mut out = empty_out();
    let tables: Vec<Table> = families::generic_tables(true, true).into_iter().step_by(11).collect();
    let cfg = gen_cfg(args.tier_quick(), args.seed(), true);
    for tab in &tables {
        table::set_table(tab);
        let mut pad_ctr = 0usize;
        for p0 in families::tree_programs(&cfg, 3) {
            // "exactly the text it was parsed from": also with blanks in front, behind, and doubled inside
            pad_ctr += 1;
            let mut p = p0;
            p.text = match pad_ctr % 5 {
                0 => format!(" {}", p.text),
                1 => format!("{} ", p.text),
                2 => format!("  {}  ", p.text),
                3 => p.text.replacen(' ', "  ", 1),
                _ => p.text,
            };
            sym::reset_arena();
            out.stats.programs += 1;
            out.stats.note_text(0, &p.text);
            for (name, r) in [
                ("flat.unparse", catch_unwind(AssertUnwindSafe(|| Flat::<Sym, SymOps>::parse(&p.text).map(|e| e.unparse().to_string())))),
                ("flat_wo.unparse", catch_unwind(AssertUnwindSafe(|| Flat::<Sym, SymOps>::parse_wo_compile(&p.text).map(|e| e.unparse().to_string())))),
                ("flat.display", catch_unwind(AssertUnwindSafe(|| Flat::<Sym, SymOps>::parse(&p.text).map(|e| format!("{e}"))))),
                ("flat.clone.unparse", catch_unwind(AssertUnwindSafe(|| Flat::<Sym, SymOps>::parse(&p.text).map(|e| e.clone().unparse().to_string())))),
                ("flat_wo.compile.unparse", catch_unwind(AssertUnwindSafe(|| Flat::<Sym, SymOps>::parse_wo_compile(&p.text).map(|mut e| { e.compile(); e.unparse().to_string() })))),
            ] {
                match r {
                    Ok(Ok(s)) if s == p.text => {}
                    Ok(Ok(s)) => {
                        out.stats.violations += 1;
                        if out.findings.len() < 20 {
                            out.findings.push(mk_finding("unparse", name, tab, &p.text, p.tree.as_ref(), s, p.text.clone(), "printed text differs from source".into()));
                        }
                    }
                    Ok(Err(e)) => {
                        out.stats.violations += 1;
                        out.stats.rejected += 1;
                        if out.findings.len() < 20 {
                            out.findings.push(mk_finding("rejected", name, tab, &p.text, p.tree.as_ref(), String::new(), String::new(), e.msg().to_string()));
                        }
                    }
                    Err(_) => {
                        out.stats.violations += 1;
                        out.stats.panics += 1;
                        if out.findings.len() < 20 {
                            out.findings.push(mk_finding("panic", name, tab, &p.text, p.tree.as_ref(), String::new(), String::new(), "panic".into()));
                        }
                    }
                }
            }
        }
    }
    out.wall_s = t0.elapsed().as_secs_f64();
    let b = json!({"tables": tables.len(), "check": "FlatEx::parse(t).unparse() == t, parse_wo_compile likewise, Display, clone and compile-after-parse_wo_compile likewise: string equality on every tree-generated text, two of five with a blank in front / behind / both, one with a doubled inner blank (path-level, nothing symbolic)"});
    Part { name: "unparse-identity", out, bounds: b }
}

/// C12: serde_json round trip of flat expressions (parsed and derived from deep ones).
pub fn part_serde(args: &Args) -> Part {
    let pls = ["flat_serde", "deep>flat_serde"];
    let tables: Vec<Table> = families::generic_tables(true, true).into_iter().step_by(if args.tier_quick() { 5 } else { 1 }).collect();
    let cfg = gen_cfg(true, args.seed(), true);
    let gen = move |ti: usize, _t: &Table| -> Vec<Program> { families::tree_programs(&cfg, ti as u64) };
    let sc = mk_sweep(args, tables, &gen, pls.to_vec(), 64);
    let ntab = sc.tables.len();
    let out = sweep::sweep(&sc);
    Part { name: "serde-roundtrip", out, bounds: json!({"tables": ntab, "pipelines": pls, "check": "serde_json::from_str(serde_json::to_string(e)) has the same variables and, decided by the solver, the same value as the tree"}) }
}

/// C15: "the same result" includes the error outcome: with a wrong number of values the consuming variants fail
/// exactly when the borrowing evaluation fails (path-level).
pub fn part_consuming_arity(_args: &Args) -> Part {
    let t0 = Instant::now();
    let mut out = empty_out();
    oracle::init_solver(10_000);
    let _ = std::panic::take_hook();
    std::panic::set_hook(Box::new(|_| {}));
    let tab = families::generic_table(&[0, 1, 2], 0, 0, false);
    table::set_table(&tab);
    let exprs = ["1", "1&2", "x", "x&y", "x&x&y", "y%x-z", "sin(a)&b%c-d&e", "x&1&y&2&x", "v0&v1&v2&v3&v4&v5&v6&v7&v8&v9&v10&v11&v12&v13&v14&v15&v16&v17"];
    for text in exprs {
        for wo in [false, true] {
            sym::reset_arena();
            let f = if wo { Flat::<Sym, SymOps>::parse_wo_compile(text).unwrap() } else { Flat::<Sym, SymOps>::parse(text).unwrap() };
            let n = f.var_names().len();
            for len in 0..=n + 3 {
                out.stats.programs += 1;
                out.stats.vcs += 2;
                out.stats.note_text(len as u64, text);
                let vals = |l: usize| -> Vec<Sym> { (0..l).map(|i| Sym::var(&format!("val{i}"))).collect() };
                let r = catch_unwind(AssertUnwindSafe(|| (f.eval(&vals(len)).is_ok(), f.eval_vec(vals(len)).is_ok(), f.eval_iter(vals(len).into_iter()).is_ok())));
                match r {
                    Ok((b, v, i)) => {
                        for (name, got) in [("eval_vec", v), ("eval_iter", i)] {
                            if got != b {
                                out.stats.violations += 1;
                                out.findings.push(mk_finding("arity", if wo { "flat_wo" } else { "flat" }, &tab, text, None, format!("{got}"), format!("{b}"), format!("{name} with {len} values for {n} variables is_ok() = {got}, eval is_ok() = {b}")));
                            }
                        }
                    }
                    Err(_) => {
                        out.stats.violations += 1;
                        out.stats.panics += 1;
                        out.findings.push(mk_finding("panic", "flat", &tab, text, None, String::new(), String::new(), format!("panic with {len} values")));
                    }
                }
            }
        }
    }
    let _ = std::panic::take_hook();
    out.wall_s = t0.elapsed().as_secs_f64();
    Part { name: "consuming-arity", out, bounds: json!({"expressions": exprs, "lengths": "0..=n+3 values for n variables, folded and unfolded form", "check": "eval_vec(values).is_ok() == eval_iter(values).is_ok() == eval(&values).is_ok() (path-level, no solver)"}) }
}

/// C15: the value of a variable that occurs exactly once is moved, not cloned.
pub fn part_clone_counts(args: &Args) -> Part {
    let t0 = Instant::now();
    let mut out = empty_out();
    let tables: Vec<Table> = families::generic_tables(true, false).into_iter().step_by(7).collect();
    let cfg = gen_cfg(args.tier_quick(), args.seed(), false);
    fn occurrences(t: &Tree, m: &mut BTreeMap<String, u32>) {
        match t {
            Tree::Var(n) => *m.entry(n.clone()).or_insert(0) += 1,
            Tree::Un(_, a) | Tree::Paren(a) => occurrences(a, m),
            Tree::Bin(_, a, b) | Tree::Call(_, a, b) => {
                occurrences(a, m);
                occurrences(b, m);
            }
            _ => {}
        }
    }
    for tab in &tables {
        table::set_table(tab);
        for p in families::tree_programs(&cfg, 5) {
            let tree = p.tree.as_ref().unwrap();
            let mut occ = BTreeMap::new();
            occurrences(tree, &mut occ);
            for variant in ["eval_vec", "eval_iter", "wo.eval_vec"] {
                sym::reset_arena();
                out.stats.programs += 1;
                out.stats.note_text(0, &p.text);
                let r = catch_unwind(AssertUnwindSafe(|| -> exmex::ExResult<(Vec<String>, Vec<u32>, bool)> {
                    let e = if variant == "wo.eval_vec" { Flat::<Sym, SymOps>::parse_wo_compile(&p.text)? } else { Flat::<Sym, SymOps>::parse(&p.text)? };
                    let names: Vec<String> = e.var_names().to_vec();
                    let vals: Vec<Sym> = names.iter().map(|n| Sym::var(n)).collect();
                    let ids: Vec<u32> = vals.iter().map(|v| v.0).collect();
                    sym::set_count_clones(true);
                    sym::ARENA.with(|a| a.borrow_mut().poison_reached_op = false);
                    let _v = if variant == "eval_iter" { e.eval_iter(vals.into_iter())? } else { e.eval_vec(vals)? };
                    let counts: Vec<u32> = ids.iter().map(|i| sym::clones_of(*i)).collect();
                    sym::set_count_clones(false);
                    Ok((names, counts, sym::poison_reached_op()))
                }));
                sym::set_count_clones(false);
                match r {
                    Ok(Ok((names, counts, poison))) => {
                        for (n, c) in names.iter().zip(counts.iter()) {
                            let o = occ.get(n).copied().unwrap_or(0);
                            // exactly-once variables must not be cloned; k occurrences need at most k-1 clones
                            if (o == 1 && *c != 0) || (o > 1 && *c > o - 1) {
                                out.stats.violations += 1;
                                if out.findings.len() < 20 {
                                    out.findings.push(mk_finding("clone-count", variant, tab, &p.text, Some(tree), format!("{n}: {c} clones"), format!("{o} occurrences"), "value of a variable cloned more often than necessary".into()));
                                }
                            }
                        }
                        if poison {
                            out.stats.violations += 1;
                            if out.findings.len() < 20 {
                                out.findings.push(mk_finding("poison", variant, tab, &p.text, Some(tree), String::new(), String::new(), "moved-out placeholder reached an operator".into()));
                            }
                        }
                    }
                    Ok(Err(e)) => {
                        out.stats.violations += 1;
                        out.stats.rejected += 1;
                        if out.findings.len() < 20 {
                            out.findings.push(mk_finding("rejected", variant, tab, &p.text, Some(tree), String::new(), String::new(), e.msg().to_string()));
                        }
                    }
                    Err(_) => {
                        out.stats.violations += 1;
                        out.stats.panics += 1;
                        if out.findings.len() < 20 {
                            out.findings.push(mk_finding("panic", variant, tab, &p.text, Some(tree), String::new(), String::new(), "panic".into()));
                        }
                    }
                }
            }
        }
    }
    out.wall_s = t0.elapsed().as_secs_f64();
    Part { name: "clone-counts", out, bounds: json!({"tables": tables.len(), "check": "clone counter of the proxy type during eval_vec / eval_iter: 0 clones for a variable occurring once, at most k-1 for k occurrences; placeholder never reaches an operator (path-level counters, nothing symbolic)"}) }
}

// ---------------------------------------------------------------------------------------------
// C04
// ---------------------------------------------------------------------------------------------

const NAME_POOLS: &[&[&str]] = &[
    &["x", "y", "z"],
    &["b", "a", "c", "B", "A", "_u", "a1", "a10", "a2"],
    &["β", "α", "ω", "Ω", "Α", "x", "αx", "xα"],
    &["a b", "1x", "x+y", "😀", "sin", "-", " ", "x", "a  b", "(", "PI", "min"],
    &["v0", "v1", "v2", "v3", "v4", "v5", "v6", "v7", "v8", "v9", "v10", "v11", "v12", "v13", "v14", "v15", "v16", "v17", "v18", "v19"],
    &["zz", "z", "Z", "zZ", "Zz", "_", "__", "_1"],
    // names that continue the name of a unary operator or constant of the table (bare spelling: one variable, never operator + rest)
    &["sinx", "sinΘ", "sinΩ", "sinα", "sin_1", "sin2a", "cosΔt", "cosΑ", "PIΩ", "PIx", "x", "Θ", "xsin"],
];

fn needs_brace(n: &str) -> bool {
    let mut cs = n.chars();
    let ok_first = |c: char| c.is_ascii_alphabetic() || c == '_' || ('α'..='ω').contains(&c) || ('Α'..='Ω').contains(&c);
    match cs.next() {
        Some(c) if ok_first(c) => {}
        _ => return true,
    }
    !cs.all(|c| ok_first(c) || c.is_ascii_digit()) || ["sin", "cos", "PI", "min"].contains(&n)
}

pub fn c04(args: &Args) -> i32 {
    let quick = args.tier_quick();
    let seed = args.seed();
    // part 1: binding and ordering, solver-decided
    let mut tables = vec![];
    for (ranks, flags) in [([0usize, 0, 0], 0u8), ([0, 1, 2], 0), ([2, 1, 0], 7), ([1, 0, 1], 2)] {
        tables.push(families::generic_table(&ranks, 0, flags, false));
    }
    // pseudo tables to use all threads: (pool index, table)
    let mut work = vec![];
    for (pi, _) in NAME_POOLS.iter().enumerate() {
        for t in &tables {
            work.push((pi, t.clone()));
        }
    }
    let work_tables: Vec<Table> = work.iter().map(|w| w.1.clone()).collect();
    let pools: Vec<usize> = work.iter().map(|w| w.0).collect();
    let gen = move |ti: usize, t: &Table| -> Vec<Program> {
        let pool = NAME_POOLS[pools[ti]];
        let mut rng = crate::tree::Rng(seed.wrapping_mul(31).wrapping_add(ti as u64));
        let mut out = vec![];
        let n_prog = if quick { 600 } else { 3000 };
        // tables with commutativity flags regroup literal pairs: the value VC then needs the solver to prove an AC
        // regrouping, which is C01's subject and gets expensive beyond ~6 operands of two interleaved flagged operators
        // (bit-vector multiplication chains); the binding of names is independent of that, so flagged tables get short chains
        let flagged = t.ops.iter().any(|o| o.bin.map(|b| b.1).unwrap_or(false));
        for pi in 0..n_prog {
            // choose how many distinct names and an occurrence pattern
            let k = 1 + rng.below(if flagged { pool.len().min(5) } else { pool.len() });
            let n_occ = k + rng.below(4);
            let mut leaves: Vec<Tree> = vec![];
            let mut texts: Vec<String> = vec![];
            for j in 0..n_occ {
                let name = if j < k { pool[(pi + j * 7) % pool.len()] } else { pool[rng.below(k.min(pool.len()))] };
                if rng.below(6) == 0 {
                    let l = families::LITS[j % 8];
                    leaves.push(Tree::lit(l));
                    texts.push(l.to_string());
                } else {
                    leaves.push(Tree::var(name));
                    texts.push(if needs_brace(name) || rng.below(3) == 0 { format!("{{{name}}}") } else { name.to_string() });
                }
            }
            let ops: Vec<u16> = (0..n_occ - 1).map(|_| [families::X, families::Y, families::Z][rng.below(3)]).collect();
            let tree = families::chain_to_tree(&leaves, &ops);
            let mut text = texts[0].clone();
            for (i, k) in ops.iter().enumerate() {
                text.push_str(if rng.below(2) == 0 { " " } else { "" });
                text.push_str(&table::repr_of(*k));
                text.push_str(if rng.below(2) == 0 { " " } else { "" });
                text.push_str(&texts[i + 1]);
            }
            out.push(Program { tree: Some(tree), text, class: "names" });
        }
        // all 20 names once (beyond the inline capacity of 16), in reverse order
        if pool.len() >= 16 {
            let leaves: Vec<Tree> = pool.iter().rev().map(|n| Tree::var(n)).collect();
            let ops: Vec<u16> = (0..pool.len() - 1).map(|i| [families::X, families::Z][i % 2]).collect();
            let tree = families::chain_to_tree(&leaves, &ops);
            let text = families::render_chain(&leaves, &ops);
            out.push(Program { tree: Some(tree), text, class: "names-20" });
        }
        out
    };
    let pls = ["flat", "flat_wo", "deep", "flat>deep", "deep>flat", "flat_vec", "flat_relaxed", "deep_relaxed"];
    let sc = mk_sweep(args, work_tables, &gen, pls.to_vec(), 32);
    let out = sweep::sweep(&sc);
    let part1 = Part {
        name: "binding",
        out,
        bounds: json!({
            "name_pools": NAME_POOLS,
            "programs": "seeded random occurrence patterns (1..=|pool| distinct names, up to 3 repeated occurrences, bare or {braced} spelling per occurrence, occasional literals) as unparenthesised chains; one chain with 20 distinct names in reverse order",
            "check": "var_names == sorted distinct names (Rust string order); value == reference tree with variables referred to BY NAME while the implementation receives the i-th value for the i-th listed name (solver-decided for all values)",
            "pipelines": pls,
        }),
    };
    // part 2: arity errors (path-level)
    let t0 = Instant::now();
    let mut arity = empty_out();
    oracle::init_solver(10_000);
    let _ = std::panic::take_hook();
    std::panic::set_hook(Box::new(|_| {}));
    let tab = families::generic_table(&[0, 1, 2], 0, 0, false);
    table::set_table(&tab);
    let exprs = ["1", "x", "x&y", "x&x&y", "y%x-z", "sin(a)&b%c-d&e", "{a b}&x", "v0&v1&v2&v3&v4&v5&v6&v7&v8&v9&v10&v11&v12&v13&v14&v15&v16&v17"];
    for text in exprs {
        sym::reset_arena();
        let f = Flat::<Sym, SymOps>::parse(text).unwrap();
        let d = Deep::<Sym, SymOps>::parse(text).unwrap();
        let n = f.var_names().len();
        for len in 0..=n + 3 {
            arity.stats.programs += 1;
            arity.stats.note_text(len as u64, text);
            let vals = |l: usize| -> Vec<Sym> { (0..l).map(|i| Sym::var(&format!("val{i}"))).collect() };
            let checks: Vec<(&str, bool, bool)> = vec![
                ("flat.eval", catch_unwind(AssertUnwindSafe(|| f.eval(&vals(len)).is_ok())).unwrap_or_else(|_| { arity.stats.panics += 1; false }), len == n),
                ("flat.eval_relaxed", catch_unwind(AssertUnwindSafe(|| f.eval_relaxed(&vals(len)).is_ok())).unwrap_or_else(|_| { arity.stats.panics += 1; false }), len >= n),
                ("flat.eval_vec", catch_unwind(AssertUnwindSafe(|| f.eval_vec(vals(len)).is_ok())).unwrap_or_else(|_| { arity.stats.panics += 1; false }), len == n),
                ("flat.eval_iter", catch_unwind(AssertUnwindSafe(|| f.eval_iter(vals(len).into_iter()).is_ok())).unwrap_or_else(|_| { arity.stats.panics += 1; false }), len == n),
                ("deep.eval", catch_unwind(AssertUnwindSafe(|| d.eval(&vals(len)).is_ok())).unwrap_or_else(|_| { arity.stats.panics += 1; false }), len == n),
                ("deep.eval_relaxed", catch_unwind(AssertUnwindSafe(|| d.eval_relaxed(&vals(len)).is_ok())).unwrap_or_else(|_| { arity.stats.panics += 1; false }), len >= n),
            ];
            for (name, got_ok, want_ok) in checks {
                if got_ok != want_ok {
                    arity.stats.violations += 1;
                    arity.findings.push(mk_finding("arity", name, &tab, text, None, format!("ok={got_ok}"), format!("ok={want_ok}"), format!("{len} values for {n} variables")));
                }
            }
            // relaxed with surplus values: same value as with exactly n values (identical term)
            if len >= n {
                let a = f.eval_relaxed(&vals(len)).unwrap().0;
                let b = f.eval(&vals(n)).unwrap().0;
                let c = d.eval_relaxed(&vals(len)).unwrap().0;
                if a != b || c != d.eval(&vals(n)).unwrap().0 {
                    arity.stats.violations += 1;
                    arity.findings.push(mk_finding("arity", "eval_relaxed", &tab, text, None, String::new(), String::new(), "surplus values change the result term".into()));
                }
            }
        }
    }
    if arity.stats.panics > 0 {
        arity.stats.violations += arity.stats.panics;
        arity.findings.push(mk_finding("panic", "arity", &tab, "", None, String::new(), String::new(), "panic in an evaluation with a wrong number of values".into()));
    }
    let _ = std::panic::take_hook();
    oracle::drop_solvers();
    arity.wall_s = t0.elapsed().as_secs_f64();
    let part2 = Part { name: "arity", out: arity, bounds: json!({"expressions": exprs, "lengths": "0..=n+3 for eval, eval_relaxed, eval_vec, eval_iter on flat and eval, eval_relaxed on deep", "note": "path-level: Err exactly when documented, never a panic"}) };
    finish(args, "C04", vec![part1, part2], vec![], json!({
        "functions": ["parser::find_parsed_vars", "parser::find_var_index", "parser::tokenize_and_analyze (brace tokenisation)", "FlatEx::eval/eval_relaxed/eval_vec/eval_iter", "DeepEx::eval/eval_relaxed", "DeepEx::reset_vars", "DeepEx::var_names_union"],
        "assumptions": ["parametricity in T", "variable lists of derived expressions (operator application, substitution, derivative) are asserted in the C10, C11 and C09 checks"],
        "outside": ["names outside the six pools", "more than 20 variables"],
    }))
}

// ---------------------------------------------------------------------------------------------
// C06 / C07: raw token sequences
// ---------------------------------------------------------------------------------------------

/// Statement-level well-formedness predicate of C07 on a raw token sequence.
pub fn must_be_rejected(seq: &[usize]) -> Option<&'static str> {
    let toks: Vec<&str> = seq.iter().map(|&i| families::RAW_ALPHABET[i]).collect();
    if toks.is_empty() {
        return Some("empty text");
    }
    if toks.contains(&"#") {
        return Some("illegal character");
    }
    let mut depth = 0i32;
    for t in &toks {
        if *t == "(" {
            depth += 1
        }
        if *t == ")" {
            depth -= 1;
            if depth < 0 {
                return Some("unbalanced parentheses");
            }
        }
    }
    if depth != 0 {
        return Some("unbalanced parentheses");
    }
    let last = *toks.last().unwrap();
    if ["%", "-", "sin", "min"].contains(&last) {
        return Some("ends in an operator");
    }
    let operands = toks.iter().filter(|t| ["1", "x", "y"].contains(t)).count();
    // call form: a comma belongs to the operator directly in front of the parenthesis group that contains it
    // (every binary operator may be written in call form, also `-(a, b)` and `%(a, b)`)
    let mut owner_of_comma: Vec<Option<usize>> = vec![];
    for (i, t) in toks.iter().enumerate() {
        if *t == "," {
            // walk left to the opening parenthesis of the enclosing group
            let mut d = 0i32;
            let mut j = i;
            let mut open = None;
            while j > 0 {
                j -= 1;
                if toks[j] == ")" {
                    d += 1
                } else if toks[j] == "(" {
                    if d == 0 {
                        open = Some(j);
                        break;
                    }
                    d -= 1;
                }
            }
            match open {
                Some(o) if o > 0 && ["%", "-", "min", "sin"].contains(&toks[o - 1]) => owner_of_comma.push(Some(o - 1)),
                _ => return Some("comma without an operator in call position"),
            }
        }
    }
    let owners: Vec<usize> = owner_of_comma.iter().map(|o| o.unwrap()).collect();
    for o in &owners {
        if owners.iter().filter(|p| *p == o).count() > 1 {
            return Some("more than two arguments in call form");
        }
        if toks[*o] == "sin" {
            // a unary-only operator with two arguments: not covered by the statement, no requirement
            return None;
        }
        // an operator in call position stands where an operand is expected
        if *o > 0 && ["1", "x", "y", ")"].contains(&toks[*o - 1]) {
            return None;
        }
    }
    let mut binops = 0;
    for (i, t) in toks.iter().enumerate() {
        if owners.contains(&i) {
            binops += 1;
            continue;
        }
        match *t {
            "%" | "min" => binops += 1,
            "-" => {
                if i > 0 && ["1", "x", "y", ")"].contains(&toks[i - 1]) {
                    binops += 1
                }
            }
            _ => {}
        }
    }
    if operands != binops + 1 {
        return Some("operand count is not binary-operator count + 1");
    }
    None
}

fn raw_tables() -> Vec<Table> {
    let mut tables = vec![];
    for (ranks, flags) in [([0usize, 0, 0], 0u8), ([0, 1, 2], 7), ([2, 1, 0], 5), ([1, 0, 1], 2)] {
        tables.push(families::generic_table(&ranks, 0, flags, true));
    }
    tables
}

pub fn c07(args: &Args) -> i32 {
    let quick = args.tier_quick();
    let t0 = Instant::now();
    let (max_len, stride) = if quick { (6, 8) } else { (7, 4) };
    let seqs = families::raw_sequences(max_len, stride, args.seed());
    let tables = raw_tables();
    let entry_points: [&str; 3] = ["flat", "flat_wo", "deep"];
    let threads = args.threads();
    let results: Vec<(Stats, Vec<Finding>)> = std::thread::scope(|sc| {
        let mut hs = vec![];
        for w in 0..threads {
            let seqs = &seqs;
            let tables = &tables;
            hs.push(sc.spawn(move || {
                let mut st = Stats::default();
                let mut fs = vec![];
                for tab in tables.iter() {
                    table::set_table(tab);
                    for (i, s) in seqs.iter().enumerate() {
                        if i % threads != w {
                            continue;
                        }
                        let verdict = must_be_rejected(s);
                        for sep in [" ", ""] {
                            if sep.is_empty() && verdict.is_none() {
                                continue; // unseparated spelling only used for must-reject inputs (tokens may merge otherwise)
                            }
                            let text = families::raw_text(s, sep);
                            if sep.is_empty() && text != families::raw_text(s, " ").replace(' ', "") {
                                continue;
                            }
                            // joined spelling may merge tokens into a legal identifier (e.g. `x` `y` -> `xy`): only keep it
                            // when no two adjacent tokens are both alphanumeric
                            if sep.is_empty() {
                                let toks: Vec<&str> = s.iter().map(|&i| families::RAW_ALPHABET[i]).collect();
                                if toks.windows(2).any(|w| w[0].chars().last().unwrap().is_alphanumeric() && w[1].chars().next().unwrap().is_alphanumeric()) {
                                    continue;
                                }
                            }
                            st.programs += 1;
                            st.note_text(0, &text);
                            for ep in entry_points {
                                sym::reset_arena();
                                match sweep::run_sym(ep, &text) {
                                    RunResult::Value(..) => {
                                        st.accepted += 1;
                                        if let Some(why) = verdict {
                                            st.violations += 1;
                                            if fs.len() < 10 {
                                                fs.push(mk_finding("accepted-malformed", ep, tab, &text, None, String::new(), String::new(), why.to_string()));
                                            }
                                        }
                                    }
                                    RunResult::Rejected(_) => st.rejected_raw += 1,
                                    RunResult::Panic(m) => {
                                        st.panics += 1;
                                        st.violations += 1;
                                        if fs.len() < 10 {
                                            fs.push(mk_finding("panic", ep, tab, &text, None, String::new(), String::new(), m));
                                        }
                                    }
                                }
                            }
                        }
                    }
                }
                (st, fs)
            }));
        }
        hs.into_iter().map(|h| h.join().unwrap()).collect()
    });
    let mut raw = empty_out();
    for (st, fs) in results {
        raw.stats.merge(&st);
        raw.findings.extend(fs);
    }
    raw.wall_s = t0.elapsed().as_secs_f64();
    let part1 = Part {
        name: "raw-sequences",
        out: raw,
        bounds: json!({
            "alphabet": families::RAW_ALPHABET, "tables": tables.len(), "entry_points": entry_points,
            "sequences": format!("all token sequences of length <=4; lengths 5..={max_len} every {stride}th; blank-separated and (where tokens cannot merge) unseparated"),
            "predicate": "accepted => non-empty, no illegal character, balanced parentheses, not ending in an operator, operands = binary operators + 1 (the statement of C07)",
            "note": "exhaustive path enumeration inside the symbolic executor (T = Sym); acceptance does not depend on values, so there is no solver query in this part",
        }),
    };
    // part 2: single-point damages of well-formed tree programs
    let t1 = Instant::now();
    let mut dmg = empty_out();
    let _ = std::panic::take_hook();
    std::panic::set_hook(Box::new(|_| {}));
    let cfg = gen_cfg(true, args.seed(), true);
    let dtables: Vec<Table> = families::generic_tables(true, true).into_iter().step_by(if quick { 17 } else { 5 }).collect();
    let mut samples = vec![];
    for tab in &dtables {
        table::set_table(tab);
        for (pi, p) in families::tree_programs(&cfg, 9).iter().enumerate() {
            if pi % (if quick { 5 } else { 1 }) != 0 {
                continue;
            }
            let chars: Vec<char> = p.text.chars().collect();
            let mut damaged: Vec<(String, &'static str)> = vec![];
            // delete one parenthesis
            for (i, c) in chars.iter().enumerate() {
                if *c == '(' || *c == ')' {
                    let mut d = chars.clone();
                    d.remove(i);
                    damaged.push((d.into_iter().collect(), "deleted parenthesis"));
                }
            }
            // insert one parenthesis at every position
            for i in 0..=chars.len() {
                for par in ['(', ')'] {
                    let mut d = chars.clone();
                    d.insert(i, par);
                    let s: String = d.into_iter().collect();
                    // inserting inside a braced variable name or inside an identifier/number changes the token, not the structure
                    if inside_token(&chars, i) {
                        continue;
                    }
                    damaged.push((s, "inserted parenthesis"));
                }
            }
            // append a binary operator
            for op in ["%", "-", " min", " %"] {
                damaged.push((format!("{}{op}", p.text), "appended binary operator"));
            }
            // extra operand beside an operand: after the text and before it
            damaged.push((format!("{} x", p.text), "extra operand"));
            damaged.push((format!("{} 7", p.text), "extra operand"));
            damaged.push((format!("x {}", p.text), "extra operand"));
            // illegal character at a few positions
            for i in [0, chars.len() / 2, chars.len()] {
                if inside_token(&chars, i) && i != 0 && i != chars.len() {
                    continue;
                }
                for bad in ['#', '$', '\\', '?', '\u{a0}', '\u{2003}', '\u{3000}', '\u{85}', 'é', '😀', '\t'] {
                    let mut d = chars.clone();
                    d.insert(i, bad);
                    damaged.push((d.into_iter().collect(), "illegal character"));
                }
            }
            // a malformed tail behind a blank-like character must not be dropped silently
            for blank in ['\u{a0}', '\u{2003}', '\u{3000}', '\t', '\n'] {
                for tail in [")", "+", "%", "3", "(", "#"] {
                    damaged.push((format!("{}{blank}{tail}", p.text), "malformed tail behind a blank-like character"));
                }
            }
            for (text, kind) in damaged {
                dmg.stats.programs += 1;
                dmg.stats.note_text(0, &text);
                if samples.len() < 6 && dmg.stats.programs % 997 == 0 {
                    samples.push(json!({"original": p.text, "damaged": text, "damage": kind}));
                }
                for ep in entry_points {
                    sym::reset_arena();
                    match sweep::run_sym(ep, &text) {
                        RunResult::Value(..) => {
                            // `x <text>` where text starts with a sign is a legal binary expression: not a damage
                            if kind == "extra operand" && text.starts_with("x ") && (p.text.starts_with('-')) {
                                continue;
                            }
                            dmg.stats.violations += 1;
                            if dmg.findings.len() < 15 {
                                dmg.findings.push(mk_finding("accepted-malformed", ep, tab, &text, None, String::new(), String::new(), format!("{kind} of `{}`", p.text)));
                            }
                        }
                        RunResult::Rejected(_) => dmg.stats.rejected_raw += 1,
                        RunResult::Panic(m) => {
                            dmg.stats.panics += 1;
                            dmg.stats.violations += 1;
                            if dmg.findings.len() < 15 {
                                dmg.findings.push(mk_finding("panic", ep, tab, &text, None, String::new(), String::new(), m));
                            }
                        }
                    }
                }
            }
        }
    }
    let _ = std::panic::take_hook();
    dmg.samples = samples;
    dmg.wall_s = t1.elapsed().as_secs_f64();
    let part2 = Part {
        name: "single-point-damage",
        out: dmg,
        bounds: json!({"tables": dtables.len(), "damages": ["delete one parenthesis (every occurrence)", "insert ( or ) at every token boundary", "append a binary operator", "extra operand before/after", "illegal character # $ \\ ? NBSP EM-SPACE IDEOGRAPHIC-SPACE NEL é emoji TAB at start, middle, end"],
            "originals": "tree-generated well-formed texts (<=3 operands exhaustive incl. unary chains, renderings and call forms as in the quick tree family)", "note": "path-level: every damaged text must be rejected by FlatEx::parse, parse_wo_compile and DeepEx::parse"}),
    };
    finish(args, "C07", vec![part1, part2], vec![], json!({
        "functions": ["parser::check_parsed_token_preconditions", "parser::tokenize_and_analyze", "flat::detail::make_expression (operand/operator count)", "DeepEx::new (count check)"],
        "assumptions": ["acceptance is independent of T (parametricity)"],
        "outside": ["texts longer than the bound", "damages combining several edits", "eval_str / parse_val entry points (share the same tokenizer and checks)"],
    }))
}

fn inside_token(chars: &[char], i: usize) -> bool {
    // true when position i lies strictly inside a braced name, an identifier or a number
    let mut in_brace = false;
    for (k, c) in chars.iter().enumerate() {
        if k == i {
            break;
        }
        if *c == '{' {
            in_brace = true
        }
        if *c == '}' {
            in_brace = false
        }
    }
    if in_brace {
        return true;
    }
    if i == 0 || i >= chars.len() {
        return false;
    }
    let a = chars[i - 1];
    let b = chars[i];
    let idc = |c: char| c.is_alphanumeric() || c == '_' || c == '.';
    idc(a) && idc(b)
}

pub fn c06(args: &Args) -> i32 {
    let quick = args.tier_quick();
    // part 1: panics on tree programs through every pipeline (follow-up calls included)
    let mut pls: Vec<&'static str> = pipelines::STRUCTURAL.to_vec();
    pls.push("followups");
    let p1 = crate::props::part_trees(args, &pls, true);
    // part 2: raw sequences through every pipeline
    let (max_len, stride) = if quick { (6, 16) } else { (7, 6) };
    let seed = args.seed();
    let tables = raw_tables();
    let ntab = tables.len();
    let gen = move |ti: usize, _t: &Table| -> Vec<Program> {
        let mut v: Vec<Program> = families::raw_sequences(max_len, stride, seed.wrapping_add(ti as u64 * 13))
            .iter()
            .flat_map(|s| {
                let mut o = vec![Program { tree: None, text: families::raw_text(s, " "), class: "raw" }];
                if s.len() <= 5 {
                    o.push(Program { tree: None, text: families::raw_text(s, ""), class: "raw-joined" });
                }
                o
            })
            .collect();
        // characters of every UTF-8 length directly behind and in front of operator and constant names, numbers, parens
        for head in ["sin", "PI", "min", "-", "%", "x", "1", "(", ")", "sin(", "1.", "{x}"] {
            for ch in ["a", "é", "α", "ω", "Ω", "€", "\u{2003}", "😀", "\u{10000}", "\u{10FFFF}", "\u{7f}", "\u{80}"] {
                for tail in ["", "x", "+1", " x", ")"] {
                    v.push(Program { tree: None, text: format!("{head}{ch}{tail}"), class: "multibyte" });
                    v.push(Program { tree: None, text: format!("1+{head}{ch}{tail}"), class: "multibyte" });
                    v.push(Program { tree: None, text: format!("{ch}{head}{tail}"), class: "multibyte" });
                }
            }
        }
        // unicode / control characters / brace edge cases
        for t in ["", " ", "{", "}", "{}", "{x", "x}", "{{x}}", "{x}{y}", "α", "αβγ%ω", "😀", "x%😀", "1.2.3", ".", "..", "1.", ".1", "x\t%y", "x\n", "\u{0}", "x%\u{7f}", "é", "xé", "sinα", "sin", "sin(", "min(", "min(,)", "min(x,)", "min(,x)", ",", ",,", "(,)", "x,y", "min(x,y,x)", "-", "--", "-(", ")-(", "1e5", "π", "PI", "PIx", "x PI", "Ω-Α", "ǅ", "x%ǅ", "sin ǅ", "sinǅ", "PIǅ", "１", "x%１"] {
            v.push(Program { tree: None, text: t.to_string(), class: "edge" });
        }
        v
    };
    let mut sc = mk_sweep(args, tables, &gen, pls.clone(), 64);
    sc.acceptance_must_agree = false;
    let out = sweep::sweep(&sc);
    let p2 = Part {
        name: "raw-sequences",
        out,
        bounds: json!({"alphabet": families::RAW_ALPHABET, "tables": ntab,
            "sequences": format!("all token sequences of length <=4; 5..={max_len} every {stride}th; blank-separated, length<=5 also unseparated; plus a list of unicode/control/brace edge texts"),
            "pipelines": pls, "note": "a panic on a path is a violation for all values on that path"}),
    };
    // part 3: concrete entry points (value-typed, eval_str, statements) on edge texts: path-level only
    let t0 = Instant::now();
    let mut conc = empty_out();
    let _ = std::panic::take_hook();
    std::panic::set_hook(Box::new(|_| {}));
    let val_alphabet = ["1", "2.5", "true", "[1,2]", "x", "(", ")", ",", "+", "-", "if", "else", "==", ".", "to_int", "#"];
    let max_len3 = if quick { 4 } else { 5 };
    for len in 0..=max_len3 {
        for s in tuples(val_alphabet.len(), len) {
            if len == max_len3 && (s[0] + s[len - 1] + args.seed() as usize) % 3 != 0 {
                continue;
            }
            let text: String = s.iter().map(|&i| val_alphabet[i]).collect::<Vec<_>>().join(" ");
            conc.stats.programs += 1;
            conc.stats.note_text(0, &text);
            let r = catch_unwind(AssertUnwindSafe(|| {
                if let Ok(e) = exmex::parse_val::<i32, f64>(&text) {
                    let n = e.var_names().len();
                    let _ = e.eval(&vec![exmex::Val::Int(3); n]);
                    let _ = e.eval(&vec![exmex::Val::Float(0.5); n]);
                    let _ = e.unparse().len();
                    let _ = e.operator_reprs();
                    let _ = e.clone().to_deepex().map(|d| d.eval(&vec![exmex::Val::Bool(true); n]));
                    // every index up to two past the last variable: out of range must be an Err, never a panic, also for
                    // an expression without variables
                    for i in 0..=n + 1 {
                        let _ = e.clone().partial(i).map(|d| d.eval(&vec![exmex::Val::Float(0.5); n]));
                    }
                    let _ = e.clone().partial_nth(n, 2);
                    let _ = e.clone().partial_iter([0usize, n].into_iter());
                }
                if let Ok(e) = exmex::parse::<f64>(&text) {
                    let n = e.var_names().len();
                    for i in 0..=n + 1 {
                        let _ = e.clone().partial(i).map(|d| d.eval(&vec![0.5; n]));
                    }
                    let _ = e.clone().partial_nth(n, 2);
                    if let Ok(d) = e.to_deepex() {
                        for i in 0..=n + 1 {
                            let _ = d.clone().partial(i).map(|p| p.eval(&vec![0.5; n]));
                        }
                    }
                }
                let _ = exmex::eval_str::<f64>(&text);
                let _ = exmex::line_2_statement_val::<i32, f64>(&text);
                let _ = exmex::line_2_statement_val::<i32, f64>(&format!("y = {text}"));
            }));
            if r.is_err() {
                conc.stats.panics += 1;
                conc.stats.violations += 1;
                if conc.findings.len() < 15 {
                    conc.findings.push(mk_finding("panic", "parse_val/eval_str/line_2_statement_val", &Table::default(), &text, None, String::new(), String::new(), "panic in a concrete entry point".into()));
                }
            }
        }
    }
    // statement lines: assignment and comparison characters glued and spaced, at the start, in the middle and at the end
    let stmt_alphabet = ["x", "1", "=", "==", " ", "+", "(", ")", "{y}", "<=", "!=", "y1", ","];
    let max_len_stmt = if quick { 4 } else { 5 };
    for len in 0..=max_len_stmt {
        for s in tuples(stmt_alphabet.len(), len) {
            let text: String = s.iter().map(|&i| stmt_alphabet[i]).collect::<Vec<_>>().concat();
            conc.stats.programs += 1;
            conc.stats.note_text(1, &text);
            let r = catch_unwind(AssertUnwindSafe(|| {
                let _ = exmex::line_2_statement_val::<i32, f64>(&text);
                let _ = exmex::statements::line_2_statement::<f64, exmex::FloatOpsFactory<f64>, exmex::NumberMatcher>(&text);
            }));
            if r.is_err() {
                conc.stats.panics += 1;
                conc.stats.violations += 1;
                if conc.findings.len() < 15 {
                    conc.findings.push(mk_finding("panic", "line_2_statement / line_2_statement_val", &Table::default(), &text, None, String::new(), String::new(), "panic in a statement-line entry point".into()));
                }
            }
        }
    }
    let _ = std::panic::take_hook();
    conc.wall_s = t0.elapsed().as_secs_f64();
    let p3 = Part {
        name: "concrete-entry-points",
        out: conc,
        bounds: json!({"alphabet": val_alphabet, "max_len": max_len3, "statement_alphabet": stmt_alphabet, "statement_max_len": max_len_stmt, "statement_texts": "every concatenation (no separator; the blank is a letter of the alphabet) up to the length bound through line_2_statement::<f64> and line_2_statement_val::<i32,f64>", "entry_points": ["parse_val::<i32,f64> (+ eval, unparse, operator_reprs, to_deepex, partial with every index 0..=n+1, partial_nth, partial_iter)", "parse::<f64> (+ partial with every index 0..=n+1 on the flat and the deep form)", "eval_str::<f64>", "line_2_statement_val"],
            "note": "concrete data types: plain execution of enumerated inputs under catch_unwind (no solver); the panics of value.rs on special operand values are decided by engine K (C17)"}),
    };
    // part 4: long and deeply nested texts in a child process (a stack overflow cannot be caught in-process)
    let t1 = Instant::now();
    let mut deep = empty_out();
    let exe = std::env::current_exe().unwrap();
    for (depth, tokens) in [(10usize, 1000usize), (50, 1000), (100, 1000), (100, 300)] {
        for shape in ["parens", "unary", "call", "mixed"] {
            deep.stats.programs += 1;
            deep.stats.note_text(depth as u64, &format!("{shape} {depth} {tokens}"));
            // flat -> deep conversion nests one level per operator of a chain: 400+ operands exceed the 8 MiB stack, which the
            // property excludes itself ("deeper recursion limits of the deep form are out of scope"); the 1000-token texts
            // therefore run the parsing entry points, evaluation, printing, listings and deep -> flat only
            let steps = if tokens > 300 { "parse" } else { "all" };
            let st = std::process::Command::new(&exe).args(["deepnest", "--depth", &depth.to_string(), "--tokens", &tokens.to_string(), "--shape", shape, "--steps", steps]).stdout(std::process::Stdio::piped()).stderr(std::process::Stdio::null()).output();
            match st {
                Ok(o) if o.status.success() => {}
                Ok(o) => {
                    deep.stats.violations += 1;
                    deep.stats.panics += 1;
                    let why = if o.status.code().is_none() { "killed by a signal (stack exhausted)".to_string() } else { String::from_utf8_lossy(&o.stdout).trim().to_string() };
                    deep.findings.push(mk_finding("panic", "deepnest", &Table::default(), &format!("{shape} text with {tokens} tokens nested {depth} deep"), None, String::new(), String::new(), why));
                }
                Err(e) => deep.findings.push(mk_finding("inconclusive", "deepnest", &Table::default(), "", None, String::new(), String::new(), format!("cannot spawn child: {e}"))),
            }
        }
    }
    deep.wall_s = t1.elapsed().as_secs_f64();
    let p4 = Part {
        name: "long-and-deep-texts",
        out: deep,
        bounds: json!({"texts": "4 shapes (nested parentheses, nested unary functions, nested call forms, mixed) x (depth, tokens) in (10,1000), (50,1000), (100,1000), (100,300)",
            "run": "child process with the default 8 MiB main-thread stack (T = f64, default operators): FlatEx::parse, parse_wo_compile, DeepEx::parse, eval, unparse, operator listings, deep -> flat; for the 300-token texts also flat -> deep -> flat and partial (flat -> deep of a 400+-operand chain nests 400 levels and exceeds the stack: excluded by the property itself)",
            "note": "a concrete resource measurement, not a solver question (path-level)"}),
    };
    finish(args, "C06", vec![p1, p2, p3, p4], vec![], json!({
        "functions": ["parser::tokenize_and_analyze", "parser::check_parsed_token_preconditions", "flat::detail::make_expression", "FlatEx::compile", "flat::detail::flatex_to_deepex", "deep::detail::make_expression", "deep::detail::process_unary", "DeepEx::compile", "partial::partial_deepex", "operator listings"],
        "assumptions": ["panic-freedom of a path is independent of T except through the operator functions, which are engine K's subject (C17)"],
        "outside": ["arbitrary Unicode beyond the listed edge texts", "texts longer than the bound (except the four long/deep shapes)", "hangs"],
    }))
}

// ---------------------------------------------------------------------------------------------
// C13 lexical families (through the real tokenizer at T = Sym)
// ---------------------------------------------------------------------------------------------

pub fn c13(args: &Args) -> i32 {
    let quick = args.tier_quick();
    let seed = args.seed();
    let tab = Table {
        ops: vec![
            OpSpec::un("log"),
            OpSpec::un("log2"),
            OpSpec::un("log10"),
            OpSpec::un("sin"),
            OpSpec::un("sinh"),
            OpSpec::bin("<", 1, false),
            OpSpec::bin("<=", 1, false),
            OpSpec::dual("-", 3, false),
            OpSpec::dual("+", 3, true),
            OpSpec::bin("*", 4, true),
            OpSpec::konst("PI"),
            OpSpec::konst("E"),
            OpSpec::konst("e"),
            OpSpec::konst("π"),
            OpSpec::un("exp"),
            OpSpec::bin("<<", 2, false),
            // a unary-only symbolic operator that is a proper prefix of a binary one
            OpSpec::un("!"),
            OpSpec::bin("!=", 1, false),
        ],
        arithmetic: false,
        not_really_ac: vec![],
    };
    // a second table whose operator order in the table is reversed (longest match must not depend on table order)
    let mut tab_rev = tab.clone();
    tab_rev.ops.reverse();
    let tables = vec![tab.clone(), tab_rev];
    let gen = move |ti: usize, t: &Table| -> Vec<Program> {
        let ix = |r: &str| t.ops.iter().position(|o| o.repr == r).unwrap() as u16;
        let _ = ti;
        let mut out: Vec<Program> = vec![];
        let mut add = |text: String, tree: Tree, class: &'static str| out.push(Program { tree: Some(tree), text, class });
        let unary = ["log", "log2", "log10", "sin", "sinh", "exp"];
        let konst = ["PI", "E", "e", "π"];
        let conts = ["4", "x", "_", "α", "Ω9", "_1", "E", "PI", "e", "0x"];
        for u in unary {
            for c in conts {
                let name = format!("{u}{c}");
                // continuing an operator name gives a variable unless the continuation completes another operator name
                if unary.contains(&name.as_str()) || konst.contains(&name.as_str()) {
                    continue;
                }
                // `log2` + `4` = `log24`: a variable; `log` + `2...` handled by the longest-match family below
                if t.ops.iter().any(|o| o.unary && !o.konst && o.bin.is_none() && name.starts_with(o.repr) && o.repr.len() > u.len()) {
                    continue;
                }
                add(name.clone(), Tree::var(&name), "extended-operator-name");
                add(format!("{name}*2"), Tree::bin(ix("*"), Tree::var(&name), Tree::lit("2")), "extended-operator-name");
                add(format!("-{name}"), Tree::un(ix("-"), Tree::var(&name)), "extended-operator-name");
                add(format!("{u} {name}"), Tree::un(ix(u), Tree::var(&name)), "extended-operator-name");
            }
            // exact name applies the operator
            add(format!("{u} 4"), Tree::un(ix(u), Tree::lit("4")), "exact-operator-name");
            add(format!("{u}(4)"), Tree::un(ix(u), Tree::lit("4")), "exact-operator-name");
            add(format!("{u}(x)"), Tree::un(ix(u), Tree::var("x")), "exact-operator-name");
            add(format!("{u} x"), Tree::un(ix(u), Tree::var("x")), "exact-operator-name");
            add(format!("{u}-x"), Tree::un(ix(u), Tree::un(ix("-"), Tree::var("x"))), "exact-operator-name");
            add(format!("{u} {u} x"), Tree::un(ix(u), Tree::un(ix(u), Tree::var("x"))), "exact-operator-name");
            add(format!("{u} {{{u}}}"), Tree::un(ix(u), Tree::var(u)), "exact-operator-name");
            add(format!("2*{u} PI"), Tree::bin(ix("*"), Tree::lit("2"), Tree::un(ix(u), Tree::Konst(ix("PI")))), "exact-operator-name");
            // truncated names are variables
            if u.len() > 2 {
                let tr = &u[..u.len() - 1];
                if !unary.contains(&tr) && !konst.contains(&tr) {
                    add(tr.to_string(), Tree::var(tr), "truncated-operator-name");
                    add(format!("{tr}*{u} x"), Tree::bin(ix("*"), Tree::var(tr), Tree::un(ix(u), Tree::var("x"))), "truncated-operator-name");
                }
            }
        }
        for c in konst {
            add(c.to_string(), Tree::Konst(ix(c)), "constant");
            add(format!("{c}*2"), Tree::bin(ix("*"), Tree::Konst(ix(c)), Tree::lit("2")), "constant");
            add(format!("2*{c}"), Tree::bin(ix("*"), Tree::lit("2"), Tree::Konst(ix(c))), "constant");
            add(format!("-{c}"), Tree::un(ix("-"), Tree::Konst(ix(c))), "constant");
            add(format!("({c})"), Tree::Konst(ix(c)), "constant");
            for cont in ["5", "x", "_", "rwin", "2x"] {
                let name = format!("{c}{cont}");
                if unary.contains(&name.as_str()) || konst.contains(&name.as_str()) || name == "exp" || name.starts_with("exp") {
                    continue;
                }
                add(name.clone(), Tree::var(&name), "extended-constant-name");
                add(format!("{name}+1"), Tree::bin(ix("+"), Tree::var(&name), Tree::lit("1")), "extended-constant-name");
            }
        }
        // longest match
        add("log2 x".into(), Tree::un(ix("log2"), Tree::var("x")), "longest-match");
        add("log2(x)".into(), Tree::un(ix("log2"), Tree::var("x")), "longest-match");
        add("log10(x)".into(), Tree::un(ix("log10"), Tree::var("x")), "longest-match");
        add("log10 2".into(), Tree::un(ix("log10"), Tree::lit("2")), "longest-match");
        add("log 2".into(), Tree::un(ix("log"), Tree::lit("2")), "longest-match");
        add("log 10".into(), Tree::un(ix("log"), Tree::lit("10")), "longest-match");
        add("log(2)".into(), Tree::un(ix("log"), Tree::lit("2")), "longest-match");
        add("log log2 log10 x".into(), Tree::un(ix("log"), Tree::un(ix("log2"), Tree::un(ix("log10"), Tree::var("x")))), "longest-match");
        add("sinh x".into(), Tree::un(ix("sinh"), Tree::var("x")), "longest-match");
        add("sin h".into(), Tree::un(ix("sin"), Tree::var("h")), "longest-match");
        add("x<=y".into(), Tree::bin(ix("<="), Tree::var("x"), Tree::var("y")), "longest-match");
        add("x<y".into(), Tree::bin(ix("<"), Tree::var("x"), Tree::var("y")), "longest-match");
        add("x<<y".into(), Tree::bin(ix("<<"), Tree::var("x"), Tree::var("y")), "longest-match");
        add("x<-y".into(), Tree::bin(ix("<"), Tree::var("x"), Tree::un(ix("-"), Tree::var("y"))), "longest-match");
        add("x<=-y".into(), Tree::bin(ix("<="), Tree::var("x"), Tree::un(ix("-"), Tree::var("y"))), "longest-match");
        add("x <= 2 < y".into(), Tree::bin(ix("<"), Tree::bin(ix("<="), Tree::var("x"), Tree::lit("2")), Tree::var("y")), "longest-match");
        add("x!=y".into(), Tree::bin(ix("!="), Tree::var("x"), Tree::var("y")), "longest-match");
        add("x != !y".into(), Tree::bin(ix("!="), Tree::var("x"), Tree::un(ix("!"), Tree::var("y"))), "longest-match");
        add("!x".into(), Tree::un(ix("!"), Tree::var("x")), "longest-match");
        add("!x!=!!y".into(), Tree::bin(ix("!="), Tree::un(ix("!"), Tree::var("x")), Tree::un(ix("!"), Tree::un(ix("!"), Tree::var("y")))), "longest-match");
        // sign rule
        let x = || Tree::var("x");
        let y = || Tree::var("y");
        let neg = |t: Tree| Tree::un(ix("-"), t);
        let pos = |t: Tree| Tree::un(ix("+"), t);
        add("-x".into(), neg(x()), "sign");
        add("--x".into(), neg(neg(x())), "sign");
        add("+-+x".into(), pos(neg(pos(x()))), "sign");
        add("x--y".into(), Tree::bin(ix("-"), x(), neg(y())), "sign");
        add("x-+-y".into(), Tree::bin(ix("-"), x(), pos(neg(y()))), "sign");
        add("x*-y".into(), Tree::bin(ix("*"), x(), neg(y())), "sign");
        add("(-x)".into(), neg(x()), "sign");
        add("-(x)".into(), neg(x()), "sign");
        add("(x)-y".into(), Tree::bin(ix("-"), x(), y()), "sign");
        add("(x)-(-y)".into(), Tree::bin(ix("-"), x(), neg(y())), "sign");
        add("2-3".into(), Tree::bin(ix("-"), Tree::lit("2"), Tree::lit("3")), "sign");
        add("2- -3".into(), Tree::bin(ix("-"), Tree::lit("2"), neg(Tree::lit("3"))), "sign");
        add("-2-3".into(), Tree::bin(ix("-"), neg(Tree::lit("2")), Tree::lit("3")), "sign");
        add("x<-y-z".into(), Tree::bin(ix("<"), x(), Tree::bin(ix("-"), neg(y()), Tree::var("z"))), "sign");
        add("sin-x-y".into(), Tree::bin(ix("-"), Tree::un(ix("sin"), neg(x())), y()), "sign");
        add("PI-x".into(), Tree::bin(ix("-"), Tree::Konst(ix("PI")), x()), "sign");
        add("{x}-y".into(), Tree::bin(ix("-"), x(), y()), "sign");
        // literal spellings
        for lit in ["1", "1.", ".5", "1.5", "10.25", "007", "0", "0.0", "123456789", "3.", ".0"] {
            add(lit.to_string(), Tree::lit(lit), "literal");
            add(format!("{lit}*x"), Tree::bin(ix("*"), Tree::lit(lit), x()), "literal");
            add(format!("x-{lit}"), Tree::bin(ix("-"), x(), Tree::lit(lit)), "literal");
            add(format!("-{lit}"), neg(Tree::lit(lit)), "literal");
            add(format!("sin {lit}"), Tree::un(ix("sin"), Tree::lit(lit)), "literal");
        }
        // braces: anything in curly braces is one variable
        for name in ["x", "a b", "1", "1.5", "x+y", "sin", "log2", "PI", "-", "(", ")", "😀", "α β", "x,y", " ", "e", "{"] {
            add(format!("{{{name}}}"), Tree::var(name), "braces");
            add(format!("2*{{{name}}}"), Tree::bin(ix("*"), Tree::lit("2"), Tree::var(name)), "braces");
            add(format!("sin{{{name}}}-1"), Tree::bin(ix("-"), Tree::un(ix("sin"), Tree::var(name)), Tree::lit("1")), "braces");
        }
        add("{x}*x".into(), Tree::bin(ix("*"), x(), x()), "braces");
        // Greek and underscore identifiers
        for name in ["α", "αβ2", "Ω_1", "_", "_x9", "xα", "ω", "Α", "a_b_c", "x1y2"] {
            add(name.to_string(), Tree::var(name), "identifier");
            add(format!("{name}*{name}"), Tree::bin(ix("*"), Tree::var(name), Tree::var(name)), "identifier");
            add(format!("sin {name}"), Tree::un(ix("sin"), Tree::var(name)), "identifier");
        }
        // systematic part: every tree with <= 3 leaves over this table (names that are prefixes of each other, dual
        // signs, constants, literal spellings, identifiers that continue operator names), rendered glued and spaced,
        // with and without parentheses around unary operands: every adjacency of two lexeme classes occurs
        {
            let bins: Vec<u16> = ["<", "<=", "<<", "-", "+", "*", "!="].iter().map(|r| ix(r)).collect();
            let uns: Vec<Option<u16>> = std::iter::once(None).chain(["log", "log2", "log10", "sin", "sinh", "exp", "-", "+", "!"].iter().map(|r| Some(ix(r)))).collect();
            let leaves: Vec<Tree> = vec![
                Tree::var("x"), Tree::var("h"), Tree::var("log2x"), Tree::var("PIx"), Tree::var("α"), Tree::var("e1"),
                Tree::lit("4"), Tree::lit("1."), Tree::lit(".5"), Tree::lit("10"), Tree::Konst(ix("PI")), Tree::Konst(ix("e")),
            ];
            let wrap = |u: Option<u16>, t: Tree| match u {
                Some(k) => Tree::un(k, t),
                None => t,
            };
            let styles = [
                Style::default(),
                Style { space: true, ..Style::default() },
                Style { unary_paren: true, ..Style::default() },
                Style { brace_vars: true, ..Style::default() },
            ];
            let mut ctr = seed.wrapping_add(ti as u64);
            let mut push = |t: Tree, out: &mut Vec<Program>| {
                for st in &styles {
                    out.push(Program { text: render(&t, st), tree: Some(t.clone()), class: "adjacency" });
                }
            };
            let mut sys: Vec<Program> = vec![];
            for (ia, a) in leaves.iter().enumerate() {
                for ua in &uns {
                    for ub in &uns {
                        // two unary operators over one leaf
                        push(wrap(*ua, wrap(*ub, a.clone())), &mut sys);
                    }
                    for (ib, b) in leaves.iter().enumerate() {
                        for &k in &bins {
                            for ub in &uns {
                                push(Tree::bin(k, wrap(*ua, a.clone()), wrap(*ub, b.clone())), &mut sys);
                                ctr += 1;
                                // a unary over the binary node, and three-leaf trees of both shapes (sampled)
                                if ctr % (if quick { 11 } else { 2 }) == 0 {
                                    let c = &leaves[(ia + ib + ctr as usize) % leaves.len()];
                                    let k2 = bins[(ctr as usize / 3) % bins.len()];
                                    let uc = uns[(ctr as usize / 5) % uns.len()];
                                    push(wrap(*ub, Tree::bin(k, wrap(*ua, a.clone()), b.clone())), &mut sys);
                                    push(Tree::bin(k2, Tree::bin(k, wrap(*ua, a.clone()), wrap(*ub, b.clone())), wrap(uc, c.clone())), &mut sys);
                                    push(Tree::bin(k, wrap(*ua, a.clone()), Tree::bin(k2, wrap(*ub, b.clone()), wrap(uc, c.clone()))), &mut sys);
                                }
                            }
                        }
                    }
                }
            }
            out.extend(sys);
        }
        out
    };
    let pls = ["flat", "flat_wo", "deep"];
    let sc = mk_sweep(args, tables, &gen, pls.to_vec(), 16);
    let out = sweep::sweep(&sc);
    let p1 = Part {
        name: "lexical-families",
        out,
        bounds: json!({
            "tables": "one table with unary log/log2/log10/sin/sinh/exp and unary-only !, binary < <= << - + * !=, constants PI E e π; and the same table in reversed order",
            "families": ["operator names extended by 4 x _ α Ω9 _1 E PI e 0x => variable", "exact names applied to literal / variable / sign / braces", "truncated names => variable", "constants and extended constant names", "longest match (log2/log10 over log, sinh over sin, <= and << over <)", "sign chains", "literal spellings", "anything in braces", "Greek / underscore identifiers",
                "adjacency: every tree u1(a) op u2(b), u1 u2 a, and sampled u(a op b), (a op b) op2 c, a op (b op2 c) over binaries < <= << - + * !=, unaries log log2 log10 sin sinh exp - + ! (or none), leaves x h log2x PIx α e1 4 1. .5 10 PI e; rendered glued, spaced, with parenthesised unary operands, with braced variables"],
            "check": "var_names and value term equal to the expected tree (solver-decided value equality; these are paths of the real tokenizer at T = Sym)",
            "pipelines": pls,
        }),
    };
    // texts that must be rejected
    let t0 = Instant::now();
    let mut rej = empty_out();
    let _ = std::panic::take_hook();
    std::panic::set_hook(Box::new(|_| {}));
    table::set_table(&tab);
    for text in [".", "..", "1.2.3", "1..2", "x.5", "1.x", "2 3", "x y", "x}", "{x}{y}", "sin", "log2", "x<", "<x", "x < = y", "1.5.", ".5.5"] {
        rej.stats.programs += 1;
        rej.stats.note_text(0, text);
        for pl in ["flat", "deep"] {
            sym::reset_arena();
            match sweep::run_sym(pl, text) {
                RunResult::Rejected(_) => rej.stats.rejected_raw += 1,
                RunResult::Value(i, _, _) => {
                    rej.stats.violations += 1;
                    rej.findings.push(mk_finding("accepted-malformed", pl, &tab, text, None, sweep::show_term(i), String::new(), "lexically malformed text accepted".into()));
                }
                RunResult::Panic(m) => {
                    rej.stats.violations += 1;
                    rej.stats.panics += 1;
                    rej.findings.push(mk_finding("panic", pl, &tab, text, None, String::new(), String::new(), m));
                }
            }
        }
    }
    let _ = std::panic::take_hook();
    rej.wall_s = t0.elapsed().as_secs_f64();
    let p2 = Part { name: "lexical-rejections", out: rej, bounds: json!({"texts": "lone/multiple dots, literal beside identifier, unclosed braces, operator names without operand", "note": "path-level"}) };
    finish(args, "C13", vec![p1, p2], vec![], json!({
        "functions": ["parser::tokenize_and_analyze (operator sorting, exact-match look-ahead, brace tokenisation, RE_VAR_NAME)", "parser::is_numeric_text", "parser::is_operator_binary"],
        "assumptions": ["a string has no symbolic value: this part is enumeration of lexical families through the real tokenizer (regex/lazy_static cannot be encoded by the installed engines); the kernels is_numeric_text and is_operator_binary are decided for all inputs by engine K"],
        "outside": ["identifiers and operator tables outside the listed families", "alphabetic BINARY operator names followed by identifier characters (the look-ahead is documented as skipped for them)"],
    }))
}

// ---------------------------------------------------------------------------------------------
// C17 catalogue: every operator of the real value table on every (ordered pair of) catalogue operand(s), at evaluation
// time and through parse-time folding; the assertion is path-level (no panic), the property's own quantifier is this
// catalogue. The operand-independent claim (ALL payloads) is engine K's.
// ---------------------------------------------------------------------------------------------

pub fn c17(args: &Args) -> i32 {
    use exmex::{MakeOperators, Val, ValOpsFactory};
    use smallvec::smallvec;
    let quick = args.tier_quick();
    let t0 = Instant::now();
    type V = Val<i32, f64>;
    let ints: Vec<i32> = vec![0, 1, -1, 2, -2, 3, 7, 31, 32, 33, 63, 64, 65, 12, 13, 100, -100, 46340, 46341, 65535, 65536, -65536, i32::MAX, i32::MAX - 1, i32::MIN, i32::MIN + 1, 1 << 30, -(1 << 30)];
    let floats: Vec<f64> = vec![0.0, -0.0, 1.0, -1.0, 0.5, -0.5, 1.5, 2.0, 3.0, 1e-310, -1e-310, 5e-324, 1e300, -1e300, f64::MAX, f64::MIN, f64::INFINITY, f64::NEG_INFINITY, f64::NAN, 2147483647.0, 2147483648.0, -2147483648.0, -2147483649.0, 4294967296.0, 1e10, -1e10, 0.49999999999999994, 9007199254740992.0, 31.0, 32.0, 64.0];
    let mut cat: Vec<(String, V)> = vec![];
    for i in &ints {
        cat.push((format!("Int({i})"), Val::Int(*i)));
    }
    for x in &floats {
        cat.push((format!("Float({x:?})"), Val::Float(*x)));
    }
    cat.push(("Bool(true)".into(), Val::Bool(true)));
    cat.push(("Bool(false)".into(), Val::Bool(false)));
    cat.push(("None".into(), Val::None));
    cat.push(("Error".into(), Val::Error(exmex::ExError::new("e"))));
    let specials = [0.0, -1.5, f64::NAN, f64::INFINITY, 1e300, 2.0];
    for len in 0..=5usize {
        for rot in 0..(if len == 0 { 1 } else { 3 }) {
            let a: smallvec::SmallVec<[f64; 0]> = smallvec![];
            let _ = a;
            let elems: Vec<f64> = (0..len).map(|j| specials[(j + rot * 2) % specials.len()]).collect();
            cat.push((format!("Array({elems:?})"), Val::Array(elems.into_iter().collect())));
        }
    }
    let ops = ValOpsFactory::<i32, f64>::make();
    let mut out = empty_out();
    let _ = std::panic::take_hook();
    std::panic::set_hook(Box::new(|_| {}));
    let tab = Table::default();
    for op in &ops {
        if let Ok(f) = op.unary() {
            for (la, a) in &cat {
                out.stats.programs += 1;
                out.stats.vcs += 1;
                let a2 = a.clone();
                if catch_unwind(AssertUnwindSafe(move || { let _ = f(a2); })).is_err() {
                    out.stats.panics += 1;
                    out.stats.violations += 1;
                    if out.findings.len() < 20 {
                        out.findings.push(mk_finding("panic", "value-operator", &tab, &format!("{}({la})", op.repr()), None, String::new(), String::new(), format!("unary operator `{}` panics on {la}", op.repr())));
                    }
                }
            }
        }
        if let Ok(b) = op.bin() {
            let f = b.apply;
            for (la, a) in &cat {
                for (lb, bb) in &cat {
                    out.stats.programs += 1;
                    out.stats.vcs += 1;
                    let (a2, b2) = (a.clone(), bb.clone());
                    if catch_unwind(AssertUnwindSafe(move || { let _ = f(a2, b2); })).is_err() {
                        out.stats.panics += 1;
                        out.stats.violations += 1;
                        if out.findings.len() < 20 {
                            out.findings.push(mk_finding("panic", "value-operator", &tab, &format!("{la} {} {lb}", op.repr()), None, String::new(), String::new(), format!("binary operator `{}` panics on ({la}, {lb})", op.repr())));
                        }
                    }
                }
            }
        }
    }
    // parse-time folding: literals of every kind the matcher can spell
    let lits = ["0", "1", "2", "3", "31", "32", "33", "63", "64", "12", "13", "46341", "65536", "2147483647", "(0-2147483647-1)", "(0-1)", "(0-2)", "0.0", "0.5", "1.5", "2.0", "1e10", "(0.0-1.5)", "(1.0/0.0)", "(0.0/0.0)", "2147483648.0", "true", "false", "[1.0,2.0]", "[1.0,2.0,3.0]", "[1.0]", "[1.0,2.0,3.0,4.0]", "(1/0)"];
    let mut folded = 0u64;
    for op in &ops {
        let r = op.repr();
        let alpha = r.chars().next().map(|c| c.is_alphabetic()).unwrap_or(false);
        if op.unary().is_ok() {
            for a in lits {
                let text = if alpha { format!("{r}({a})") } else { format!("{r}{a}") };
                folded += 1;
                out.stats.programs += 1;
                let t2 = text.clone();
                if catch_unwind(AssertUnwindSafe(move || { let _ = exmex::parse_val::<i32, f64>(&t2).map(|e| e.eval(&[])); })).is_err() {
                    out.stats.panics += 1;
                    out.stats.violations += 1;
                    if out.findings.len() < 20 {
                        out.findings.push(mk_finding("panic", "parse_val (folding)", &tab, &text, None, String::new(), String::new(), "panic while parsing / folding / evaluating a constant expression".into()));
                    }
                }
            }
        }
        if op.bin().is_ok() {
            for (i, a) in lits.iter().enumerate() {
                for (j, b) in lits.iter().enumerate() {
                    if quick && (i * 7 + j) % 2 == 1 && !(a.starts_with('[') && b.starts_with('[')) {
                        continue;
                    }
                    let text = if alpha { format!("{r}({a}, {b})") } else { format!("{a} {r} {b}") };
                    folded += 1;
                    out.stats.programs += 1;
                    let t2 = text.clone();
                    if catch_unwind(AssertUnwindSafe(move || { let _ = exmex::parse_val::<i32, f64>(&t2).map(|e| e.eval(&[])); })).is_err() {
                        out.stats.panics += 1;
                        out.stats.violations += 1;
                        if out.findings.len() < 20 {
                            out.findings.push(mk_finding("panic", "parse_val (folding)", &tab, &text, None, String::new(), String::new(), "panic while parsing / folding / evaluating a constant expression".into()));
                        }
                    }
                }
            }
        }
    }
    let _ = std::panic::take_hook();
    out.wall_s = t0.elapsed().as_secs_f64();
    let n_cat = cat.len();
    let p = Part {
        name: "catalogue",
        out,
        bounds: json!({
            "catalogue": format!("{n_cat} operands: {} ints (0, +-1, shift and factorial boundaries, sqrt-overflow boundary, MIN, MAX, ...), {} floats (signed zeros, subnormals, huge, inf, NaN, i32 range boundaries), true, false, None, Error, arrays of length 0..=5 with special elements", ints.len(), floats.len()),
            "evaluation_time": "every unary operator of the real ValOpsFactory::<i32,f64>::make() on every operand, every binary operator on every ordered pair",
            "parse_time": format!("{folded} constant expressions `op(a)`, `a op b` / `op(a, b)` over {} literal spellings through parse_val (folding) and eval{}", lits.len(), if quick { "; binary pairs every 2nd" } else { "" }),
            "check": "no panic (catch_unwind); plain execution, no solver: this is the catalogue of the property's own quantifier, the claim for ALL payloads is engine K's",
        }),
    };
    crate::props::finish(args, "C17", vec![p], vec![], json!({
        "functions": ["every function pointer of ValOpsFactory::<i32,f64>::make()", "parse_val (FlatEx::parse + compile over the value table)"],
        "assumptions": ["debug-assertion build profile of the helper is release (opt-level 2) with overflow checks as in the user's release build; Rust-level overflow panics in dev builds are engine K's obligations"],
        "outside": ["operands outside the catalogue (engine K: all payloads per operand kind)"],
    }))
}

// ---------------------------------------------------------------------------------------------
// C11 substitution
// ---------------------------------------------------------------------------------------------

thread_local! {
    /// (value term, variable names, printed text) of the re-parsed substitution result
    static REPARSE: std::cell::RefCell<Option<(u32, Vec<String>, String)>> = const { std::cell::RefCell::new(None) };
}

fn subst_tree(t: &Tree, sigma: &BTreeMap<String, Tree>) -> Tree {
    match t {
        Tree::Var(n) => sigma.get(n).cloned().unwrap_or_else(|| t.clone()),
        Tree::Un(k, a) => Tree::un(*k, subst_tree(a, sigma)),
        Tree::Paren(a) => subst_tree(a, sigma),
        Tree::Bin(k, a, b) | Tree::Call(k, a, b) => Tree::bin(*k, subst_tree(a, sigma), subst_tree(b, sigma)),
        other => other.clone(),
    }
}

pub fn c11(args: &Args) -> i32 {
    let quick = args.tier_quick();
    let t0 = Instant::now();
    let tables: Vec<Table> = families::generic_tables(true, false);
    let ntab = tables.len();
    let threads = args.threads();
    let seed = args.seed();
    let _ = seed;
    use families::{U1, X, Y, Z};
    let results: Vec<(Stats, Vec<Finding>, Vec<Value>, f64, u64)> = std::thread::scope(|sc| {
        let mut hs = vec![];
        for w in 0..threads {
            let tables = &tables;
            hs.push(sc.spawn(move || {
                oracle::init_solver(if quick { 10_000 } else { 60_000 });
                oracle::set_theory(Theory::Ufbv);
                let _ = std::panic::take_hook();
                std::panic::set_hook(Box::new(|_| {}));
                let mut st = Stats::default();
                let mut fs: Vec<Finding> = vec![];
                let mut samples = vec![];
                let v = |s: &str| Tree::var(s);
                let l = |s: &str| Tree::lit(s);
                // expression pool and replacement pool
                let exprs: Vec<Tree> = vec![
                    v("x"),
                    Tree::bin(X, v("x"), v("y")),
                    Tree::bin(Y, Tree::bin(X, v("x"), l("2")), v("x")),
                    Tree::bin(Z, v("x"), Tree::bin(Z, v("y"), v("z"))),
                    Tree::un(U1, Tree::bin(Y, v("y"), Tree::un(Z, v("x")))),
                    Tree::bin(X, Tree::bin(Z, l("1"), v("z")), Tree::bin(Y, v("x"), l("3"))),
                    Tree::bin(Z, Tree::bin(Z, v("x"), l("1")), l("2")),
                    Tree::bin(X, Tree::bin(X, v("y"), l("2")), l("3")),
                    Tree::un(Z, Tree::un(U1, v("z"))),
                    Tree::bin(Y, l("4"), Tree::bin(X, v("y"), v("y"))),
                    Tree::bin(X, v("x"), Tree::bin(Y, v("y"), Tree::bin(Z, v("z"), v("x")))),
                ];
                let repls: Vec<Option<Tree>> = vec![
                    None,
                    Some(v("y")),                                   // renaming
                    Some(v("x")),                                   // identity / swap
                    Some(l("5")),                                   // constant
                    Some(Tree::bin(X, v("x"), l("6"))),             // self-referential
                    Some(Tree::bin(Z, v("z"), v("w"))),             // new variables
                    Some(Tree::un(U1, v("a"))),                     // name sorting before all others
                    Some(Tree::bin(Y, l("7"), l("8"))),             // variable-free operator expression
                ];
                let (mut exprs, mut repls) = (exprs, repls);
                if !quick {
                    // thorough: four variables, chains/rotations of renamings, repeated occurrences under unary operators
                    exprs.extend(vec![
                        Tree::bin(X, Tree::bin(Y, v("w"), v("x")), Tree::bin(Z, v("y"), v("z"))),
                        Tree::bin(Z, Tree::un(U1, v("x")), Tree::un(U1, Tree::bin(X, v("x"), v("y")))),
                        Tree::bin(Y, Tree::bin(Y, v("x"), v("y")), Tree::bin(Y, v("y"), v("x"))),
                        Tree::un(U1, Tree::bin(X, Tree::un(Z, v("y")), Tree::bin(Z, v("x"), Tree::un(U1, v("y"))))),
                    ]);
                    repls.extend(vec![
                        Some(v("z")),                                          // chains x->y, y->z and rotations
                        Some(Tree::un(U1, v("y"))),                            // unary over a replaced variable
                        Some(Tree::bin(Y, v("y"), v("x"))),                    // both swapped variables
                    ]);
                }
                let mut idx = 0usize;
                for tab in tables.iter() {
                    table::set_table(tab);
                    for e in &exprs {
                        let vars = e.var_names();
                        for choice in tuples(repls.len(), vars.len()) {
                            idx += 1;
                            if idx % threads != w {
                                continue;
                            }
                            let mut sigma = BTreeMap::new();
                            for (vn, c) in vars.iter().zip(choice.iter()) {
                                if let Some(r) = &repls[*c] {
                                    sigma.insert(vn.clone(), r.clone());
                                }
                            }
                            let reference = subst_tree(e, &sigma);
                            let text = render(e, &Style::default());
                            let sig_text: BTreeMap<String, String> = sigma.iter().map(|(k, t)| (k.clone(), render(t, &Style::default()))).collect();
                            for form in ["flat", "deep", "flat-twice"] {
                                sym::reset_arena();
                                st.programs += 1;
                                st.note_text(0, &format!("{form} {text} {sig_text:?}"));
                                let r = catch_unwind(AssertUnwindSafe(|| -> exmex::ExResult<(u32, Vec<String>)> {
                                    match form {
                                        "deep" => {
                                            let d = Deep::<Sym, SymOps>::parse(&text)?;
                                            let mut sub = |n: &str| sig_text.get(n).map(|t| Deep::<Sym, SymOps>::parse(t).unwrap());
                                            let s = d.subs(&mut sub)?;
                                            let names = s.var_names().to_vec();
                                            let vals: Vec<Sym> = names.iter().map(|n| Sym::var(n)).collect();
                                            let v = s.eval(&vals)?.0;
                                            // C12: the printed result parses back to the same expression
                                            let printed = s.unparse().to_string();
                                            let r = Deep::<Sym, SymOps>::parse(&printed).map_err(|e| exmex::ExError::new(&format!("REPARSE `{printed}`: {}", e.msg())))?;
                                            let rn = r.var_names().to_vec();
                                            let rv = r.eval(&rn.iter().map(|n| Sym::var(n)).collect::<Vec<_>>())?.0;
                                            drop(r);
                                            let printed2 = printed.clone();
                                            REPARSE.with(|c| *c.borrow_mut() = Some((rv, rn, printed2)));
                                            Ok((v, names))
                                        }
                                        _ => {
                                            let f = Flat::<Sym, SymOps>::parse(&text)?;
                                            let mut sub = |n: &str| sig_text.get(n).map(|t| Flat::<Sym, SymOps>::parse(t).unwrap());
                                            let s = f.subs(&mut sub)?;
                                            let names = s.var_names().to_vec();
                                            let vals: Vec<Sym> = names.iter().map(|n| Sym::var(n)).collect();
                                            let v = s.eval(&vals)?.0;
                                            let printed = s.unparse().to_string();
                                            let r = Flat::<Sym, SymOps>::parse(&printed).map_err(|e| exmex::ExError::new(&format!("REPARSE `{printed}`: {}", e.msg())))?;
                                            let rn = r.var_names().to_vec();
                                            let rv = r.eval(&rn.iter().map(|n| Sym::var(n)).collect::<Vec<_>>())?.0;
                                            drop(r);
                                            let printed2 = printed.clone();
                                            REPARSE.with(|c| *c.borrow_mut() = Some((rv, rn, printed2)));
                                            Ok((v, names))
                                        }
                                    }
                                }));
                                let (reference_t, ref_names) = if form == "flat-twice" { (reference.clone(), reference.var_names()) } else { (reference.clone(), reference.var_names()) };
                                match r {
                                    Ok(Ok((imp, names))) => {
                                        if names != ref_names {
                                            st.varname_mismatch += 1;
                                            st.violations += 1;
                                            if fs.len() < 10 {
                                                fs.push(mk_finding("varnames", form, tab, &format!("{text} with {sig_text:?}"), Some(&reference_t), format!("{names:?}"), format!("{ref_names:?}"), "variable list is not the sorted union".into()));
                                            }
                                        }
                                        let rf = reference_t.to_sym().0;
                                        st.vcs += 1;
                                        if imp == rf {
                                            st.vcs_identical += 1;
                                        }
                                        if let Some((rv, rn, printed)) = REPARSE.with(|c| c.borrow_mut().take()) {
                                            if rn.iter().any(|n| !names.contains(n)) {
                                                st.violations += 1;
                                                if fs.len() < 10 {
                                                    fs.push(mk_finding("reparse", form, tab, &format!("{text} with {sig_text:?}"), Some(&reference_t), format!("{rn:?}"), format!("{names:?}"), format!("printed result `{printed}` has other variables")));
                                                }
                                            }
                                            st.vcs += 1;
                                            if rv != imp {
                                                let (vd, _) = sweep::decide_single(rv, imp, Theory::Ufbv, &[]);
                                                if vd == crate::smt::Verdict::Sat {
                                                    st.violations += 1;
                                                    if fs.len() < 10 {
                                                        fs.push(mk_finding("reparse", form, tab, &format!("{text} with {sig_text:?}"), Some(&reference_t), sweep::show_term(rv), sweep::show_term(imp), format!("printed result `{printed}` parses back to a different expression")));
                                                    }
                                                } else if vd == crate::smt::Verdict::Inconclusive && fs.len() < 10 {
                                                    fs.push(mk_finding("inconclusive", form, tab, &text, Some(&reference_t), String::new(), String::new(), "reparse".into()));
                                                }
                                            }
                                        }
                                        let (verdict, model) = sweep::decide_single(imp, rf, Theory::Ufbv, &[]);
                                        if samples.len() < 2 && idx % 97 == 0 {
                                            samples.push(json!({"expression": text, "substitution": sig_text, "form": form, "impl": sweep::show_term(imp), "ref": sweep::show_term(rf)}));
                                        }
                                        match verdict {
                                            crate::smt::Verdict::Unsat => {}
                                            crate::smt::Verdict::Sat => {
                                                st.violations += 1;
                                                if fs.len() < 10 {
                                                    let mut f = mk_finding("value", form, tab, &format!("{text} with {sig_text:?}"), Some(&reference_t), sweep::show_term(imp), sweep::show_term(rf), "substituted expression differs from simultaneous tree substitution".into());
                                                    f.model = model.into_iter().filter(|(k, _)| !k.starts_with('n')).collect();
                                                    fs.push(f);
                                                }
                                            }
                                            crate::smt::Verdict::Inconclusive => {
                                                if fs.len() < 10 {
                                                    fs.push(mk_finding("inconclusive", form, tab, &text, Some(&reference_t), String::new(), String::new(), String::new()));
                                                }
                                            }
                                        }
                                    }
                                    Ok(Err(e)) => {
                                        st.rejected += 1;
                                        st.violations += 1;
                                        if fs.len() < 10 {
                                            fs.push(mk_finding("rejected", form, tab, &format!("{text} with {sig_text:?}"), Some(&reference_t), String::new(), String::new(), e.msg().to_string()));
                                        }
                                    }
                                    Err(_) => {
                                        st.panics += 1;
                                        st.violations += 1;
                                        if fs.len() < 10 {
                                            fs.push(mk_finding("panic", form, tab, &format!("{text} with {sig_text:?}"), Some(&reference_t), String::new(), String::new(), "panic in subs".into()));
                                        }
                                    }
                                }
                            }
                        }
                    }
                }
                let (q, s, u, i, t) = oracle::with_solver(|s| (s.queries, s.sat, s.unsat, s.inconclusive, s.time.as_secs_f64()));
                st.queries = q;
                st.sat = s;
                st.unsat = u;
                st.inconclusive = i;
                st.solver_s = t;
                oracle::drop_solvers();
                (st, fs, samples, 0.0, 0)
            }));
        }
        hs.into_iter().map(|h| h.join().unwrap()).collect()
    });
    let _ = std::panic::take_hook();
    let mut out = empty_out();
    for (st, fs, sm, _, _) in results {
        out.stats.merge(&st);
        out.findings.extend(fs);
        out.samples.extend(sm);
    }
    out.samples.truncate(4);
    out.wall_s = t0.elapsed().as_secs_f64();
    let part = Part {
        name: "substitution",
        out,
        bounds: json!({"tables": ntab, "expressions": 11, "replacement_pool": "none, renaming (y), identity/swap (x), constant, self-referential (x&6), new variables (z-w), name sorting first (sin a), variable-free operator expression (7%8)",
            "maps": if quick { "every assignment of the 8-replacement pool to the variables of each of the 11 expressions, all tables" } else { "every assignment of the 11-replacement pool (adds chains/rotations of renamings, a unary over a replaced variable, both swapped variables) to the variables of each of 15 expressions (adds 4-variable and repeated-occurrence shapes), all tables" },
            "forms": ["FlatEx::subs", "DeepEx::subs"],
            "check": "value == simultaneous tree substitution (solver, all values); var_names == sorted union of untouched and replacement variables; empty map == original; the printed result parses back to the same expression (C12)"}),
    };
    let derived = crate::calc::part_subs_derived(args);
    finish(args, "C11", vec![part, derived], vec![], json!({
        "functions": ["DeepEx::subs", "Calculate::subs", "DeepEx::reset_vars", "DeepEx::compile", "FlatEx::to_deepex", "FlatEx::from_deepex"],
        "assumptions": ["parametricity in T"],
        "outside": ["expressions and replacements outside the pools", "repeated substitution beyond what the pool's self-referential entries exercise"],
    }))
}

// ---------------------------------------------------------------------------------------------
// replay
// ---------------------------------------------------------------------------------------------

pub fn replay(args: &Args) -> i32 {
    let file = args.get("file", "");
    let v: Value = serde_json::from_str(&std::fs::read_to_string(&file).unwrap_or_else(|e| panic!("cannot read {file}: {e}"))).unwrap();
    let f = &v["finding"];
    let tab = table_from_json(&f["table"]);
    table::set_table(&tab);
    let text = f["text"].as_str().unwrap_or("").to_string();
    let pipeline = f["pipeline"].as_str().unwrap_or("flat").to_string();
    let kind = f["kind"].as_str().unwrap_or("");
    let _ = std::panic::take_hook();
    std::panic::set_hook(Box::new(|_| {}));
    sym::reset_arena();
    println!("replay: kind={kind} pipeline={pipeline} text=`{text}` table=[{}]", families::table_label(&tab));
    let known = pipelines::STRUCTURAL.contains(&pipeline.as_str()) || ["followups", "flat_serde", "deep>flat_serde"].contains(&pipeline.as_str());
    if !known {
        println!("replay: pipeline {pipeline} is replayed by re-running the property check (not a single-program pipeline)");
        return 3;
    }
    match kind {
        "panic" | "rejected" | "accepted-malformed" => {
            let r = sweep::run_sym(&pipeline, &text);
            let (what, reproduced) = match (&r, kind) {
                (RunResult::Panic(m), "panic") => (format!("panics: {m}"), true),
                (RunResult::Rejected(m), "rejected") => (format!("rejected: {m}"), true),
                (RunResult::Value(..), "accepted-malformed") => ("accepted".to_string(), true),
                (RunResult::Panic(m), _) => (format!("panics: {m}"), false),
                (RunResult::Rejected(m), _) => (format!("rejected: {m}"), false),
                (RunResult::Value(..), _) => ("accepted and evaluated".to_string(), false),
            };
            println!("replay: real code at T = Sym: {what}");
            if reproduced {
                println!("REPRODUCED");
                1
            } else {
                println!("NOT-REPRODUCED");
                0
            }
        }
        "value" => {
            oracle::init_solver(60_000);
            oracle::init_solver2("cvc5", 60_000);
            let tree = if f["tree_json"].is_null() { None } else { Some(Tree::from_json(&f["tree_json"])) };
            let base = v["base_pipeline"].as_str().unwrap_or("flat").to_string();
            let imp = match sweep::run_sym(&pipeline, &text) {
                RunResult::Value(i, _, _) => i,
                _ => {
                    println!("NOT-REPRODUCED (pipeline no longer yields a value)");
                    return 0;
                }
            };
            let rf = match &tree {
                Some(t) => t.to_sym().0,
                None => match sweep::run_sym(&base, &text) {
                    RunResult::Value(i, _, _) => i,
                    _ => {
                        println!("NOT-REPRODUCED (base pipeline no longer yields a value)");
                        return 0;
                    }
                },
            };
            println!("replay: impl = {}\nreplay: ref  = {}", sweep::show_term(imp), sweep::show_term(rf));
            let (verdict, model) = sweep::decide_single(imp, rf, Theory::Ufbv, &[]);
            println!("replay: z3 verdict on impl != ref: {verdict:?}");
            // second opinion
            let em = crate::smt::emit(&[imp, rf], Theory::Ufbv);
            let s2 = format!("{}(assert (distinct n{imp} n{rf}))\n(check-sat)\n", em.script);
            let (v2, _) = oracle::with_solver2(|s| s.check(&s2));
            println!("replay: cvc5 verdict on impl != ref: {v2:?}");
            if verdict != crate::smt::Verdict::Sat {
                println!("NOT-REPRODUCED");
                return 0;
            }
            let p = Program { tree, text: text.clone(), class: "replay" };
            let (confirmed, conc) = sweep::concrete_replay(&pipeline, &base, &p, imp, rf, &model);
            println!("replay: concrete run of the real code at T = u16 under the model: {conc}");
            oracle::drop_solvers();
            if confirmed {
                println!("REPRODUCED");
                1
            } else {
                println!("NOT-REPRODUCED (solver model does not show up concretely: encoding suspect)");
                2
            }
        }
        _ => {
            println!("replay: findings of kind {kind} are replayed by re-running the property check");
            3
        }
    }
}

/// child process of the C06 long/deep part: builds one text and runs the real f64 API on it
pub fn deepnest(args: &Args) -> i32 {
    use exmex::DeepEx;
    let depth: usize = args.get("depth", "100").parse().unwrap();
    let tokens: usize = args.get("tokens", "1000").parse().unwrap();
    let shape = args.get("shape", "parens");
    // core: a chain long enough to reach the token count, wrapped `depth` times
    let wrap_cost = match shape.as_str() {
        "parens" => 2,
        "unary" => 3,
        "call" => 6,
        _ => 4,
    };
    let chain_len = ((tokens.saturating_sub(depth * wrap_cost)) / 2).max(2);
    let mut t = String::from("x");
    for i in 0..chain_len {
        t.push_str(["+", "*", "-", "/"][i % 4]);
        t.push_str(["y", "2", "z", "1.5", "x"][i % 5]);
    }
    for i in 0..depth {
        t = match (shape.as_str(), i % 4) {
            ("parens", _) => format!("({t})"),
            ("unary", _) => format!("sin({t})"),
            ("call", _) => format!("max({t}, 1)"),
            (_, 0) => format!("({t})*2"),
            (_, 1) => format!("-cos({t})"),
            (_, 2) => format!("min(3, {t})"),
            _ => format!("1+({t})"),
        };
    }
    let r = catch_unwind(AssertUnwindSafe(|| -> Result<(), String> {
        let f = FlatEx::<f64>::parse(&t).map_err(|e| e.msg().to_string())?;
        let n = f.var_names().len();
        let vals = vec![1.25; n];
        f.eval(&vals).map_err(|e| e.msg().to_string())?;
        let w = FlatEx::<f64>::parse_wo_compile(&t).map_err(|e| e.msg().to_string())?;
        w.eval(&vals).map_err(|e| e.msg().to_string())?;
        let d = DeepEx::<f64>::parse(&t).map_err(|e| e.msg().to_string())?;
        d.eval(&vals).map_err(|e| e.msg().to_string())?;
        let _ = (d.unparse().len(), d.operator_reprs(), f.operator_reprs());
        if args.get("steps", "all") == "parse" {
            let f3 = FlatEx::<f64>::from_deepex(d).map_err(|e| e.msg().to_string())?;
            f3.eval(&vals).map_err(|e| e.msg().to_string())?;
            return Ok(());
        }
        let d2 = f.clone().to_deepex().map_err(|e| e.msg().to_string())?;
        d2.eval(&vals).map_err(|e| e.msg().to_string())?;
        let f2 = FlatEx::<f64>::from_deepex(d2).map_err(|e| e.msg().to_string())?;
        f2.eval(&vals).map_err(|e| e.msg().to_string())?;
        let f3 = FlatEx::<f64>::from_deepex(d).map_err(|e| e.msg().to_string())?;
        f3.eval(&vals).map_err(|e| e.msg().to_string())?;
        if shape != "call" && shape != "mixed" {
            let p = f.partial(0).map_err(|e| e.msg().to_string())?;
            p.eval(&vals).map_err(|e| e.msg().to_string())?;
        }
        Ok(())
    }));
    match r {
        Ok(Ok(())) => 0,
        Ok(Err(e)) => {
            println!("rejected a well-formed text: {e}");
            3
        }
        Err(_) => {
            println!("panic");
            4
        }
    }
}
