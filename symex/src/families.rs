//! Operator-table families and program (tree x rendering) generators.
use crate::table::{OpSpec, Table};
use crate::tree::{self, decorate, fill, render, skeletons, tuples, Rng, Style, Tree};

/// all weak orders of `n` items as rank vectors (rank 0 = lowest priority)
pub fn weak_orders(n: usize) -> Vec<Vec<usize>> {
    // every surjection onto 0..k for some k, encoded as rank vectors
    let mut out = vec![];
    for v in tuples(n, n) {
        let mut used: Vec<usize> = v.clone();
        used.sort();
        used.dedup();
        // ranks must be exactly 0..k
        if used.iter().enumerate().all(|(i, r)| i == *r) {
            out.push(v);
        }
    }
    out
}

pub const MAGS: [[i64; 4]; 3] = [[0, 50, 98, 99], [0, 1, 2, 3], [96, 97, 98, 99]];

/// Indices into the generic table
pub const X: u16 = 0;
pub const Y: u16 = 1;
pub const Z: u16 = 2;
pub const U1: u16 = 3;
pub const U2: u16 = 4;
pub const PI: u16 = 5;

/// Generic family: three binary-capable operators X, Y, Z (Z also a unary sign), two unary-only
/// alphabetic operators, one constant. `alpha`: X is alphabetic (`min`, call form possible).
pub fn generic_table(ranks: &[usize], mag: usize, flags: u8, alpha: bool) -> Table {
    let p = |i: usize| MAGS[mag][ranks[i]];
    Table {
        ops: vec![
            OpSpec::bin(if alpha { "min" } else { "&" }, p(0), flags & 1 != 0),
            OpSpec::bin("%", p(1), flags & 2 != 0),
            OpSpec::dual("-", p(2), flags & 4 != 0),
            OpSpec::un("sin"),
            OpSpec::un("cos"),
            OpSpec::konst("PI"),
        ],
        arithmetic: false,
        not_really_ac: vec![],
    }
}

pub const W: u16 = 6;

/// Four binary-capable operators (X, Y, Z = sign, W), needed for constellations such as
/// `a - b*c^2 + 1` (two equal priorities separated by two distinct higher ones).
pub fn generic_table4(ranks: &[usize], mag: usize, flags: u8, alpha: bool) -> Table {
    let mut t = generic_table(&ranks[..3], mag, flags & 7, alpha);
    // magnitudes for 4 ranks
    let p = |i: usize| MAGS[mag][ranks[i]];
    t.ops[0].bin = Some((p(0), flags & 1 != 0));
    t.ops[1].bin = Some((p(1), flags & 2 != 0));
    t.ops[2].bin = Some((p(2), flags & 4 != 0));
    t.ops.push(OpSpec::bin("|", p(3), flags & 8 != 0));
    t
}

pub fn generic_tables4(stride: usize, offset: usize, alpha: bool) -> Vec<Table> {
    let mut out = vec![];
    let mut i = 0;
    for ranks in weak_orders(4) {
        for flags in 0..16u8 {
            i += 1;
            if (i + offset) % stride == 0 {
                out.push(generic_table4(&ranks, (i / 7) % 3, flags, alpha));
            }
        }
    }
    out
}

/// All unparenthesised chains with `n` operands over `bins`; leaf kinds {variable, literal}.
pub fn chains(n: usize, bins: &[u16]) -> Vec<(Vec<Tree>, Vec<u16>)> {
    let mut out = vec![];
    for ops in tuples(bins.len(), n - 1) {
        let ops: Vec<u16> = ops.iter().map(|&i| bins[i]).collect();
        for kinds in tuples(2, n) {
            let leaves: Vec<Tree> = kinds
                .iter()
                .enumerate()
                .map(|(p, &k)| if k == 0 { Tree::var(["x", "y", "z"][p % 3]) } else { Tree::lit(LITS[p % LITS.len()]) })
                .collect();
            out.push((leaves, ops.clone()));
        }
    }
    out
}

/// Chain programs for the table currently set: plain, with one unary-decorated leaf, and wrapped in a unary group.
pub fn chain_programs(max_leaves: usize, bins: &[u16], stride_last: usize, salt: u64) -> Vec<Program> {
    let mut out = vec![];
    let mut ctr = salt;
    for n in 2..=max_leaves {
        for (leaves, ops) in chains(n, bins) {
            ctr = ctr.wrapping_add(1);
            if n == max_leaves && stride_last > 1 && ctr % stride_last as u64 != 0 {
                continue;
            }
            let tree = chain_to_tree(&leaves, &ops);
            let text = render_chain(&leaves, &ops);
            out.push(Program { tree: Some(tree.clone()), text: text.clone(), class: "chain" });
            if ctr % 2 == 0 && n <= 5 {
                // the whole chain as a parenthesised group under a unary function or sign, with a variable or a LITERAL
                // directly before / after the group (a literal beside the group may be folded with a literal inside it)
                let k = bins[(ctr as usize / 2) % bins.len()];
                let r = crate::table::repr_of(k);
                let outer: Tree = if ctr % 4 == 0 { Tree::var("w") } else { Tree::lit("9") };
                let outer_txt = if ctr % 4 == 0 { "w" } else { "9" };
                match (ctr / 4) % 4 {
                    0 => out.push(Program { tree: Some(Tree::bin(k, Tree::un(U1, tree.clone()), outer.clone())), text: format!("sin({text}) {r} {outer_txt}"), class: "chain-in-unary-group" }),
                    1 => out.push(Program { tree: Some(Tree::bin(k, outer.clone(), Tree::un(Z, Tree::paren(tree.clone())))), text: format!("{outer_txt} {r} -({text})"), class: "chain-in-unary-group" }),
                    2 => out.push(Program { tree: Some(Tree::bin(k, Tree::un(Z, Tree::paren(tree.clone())), outer.clone())), text: format!("-({text}) {r} {outer_txt}"), class: "chain-in-unary-group" }),
                    _ => out.push(Program { tree: Some(Tree::bin(k, outer.clone(), Tree::un(U2, Tree::un(U1, tree.clone())))), text: format!("{outer_txt} {r} cos sin({text})"), class: "chain-in-unary-group" }),
                }
                // and as a plain parenthesised group (no unary) beside a literal
                if ctr % 8 == 0 {
                    out.push(Program { tree: Some(Tree::bin(k, Tree::paren(tree.clone()), Tree::lit("9"))), text: format!("({text}) {r} 9"), class: "chain-in-group" });
                    out.push(Program { tree: Some(Tree::bin(k, Tree::lit("9"), Tree::paren(tree.clone()))), text: format!("9 {r} ({text})"), class: "chain-in-group" });
                }
            }
            if ctr % 7 == 0 {
                // one leaf carries a unary chain
                let pos = (ctr as usize / 7) % n;
                let mut l2 = leaves.clone();
                l2[pos] = if ctr % 2 == 0 { Tree::un(Z, l2[pos].clone()) } else { Tree::un(U1, Tree::un(Z, l2[pos].clone())) };
                let t2 = chain_to_tree(&l2, &ops);
                out.push(Program { tree: Some(t2), text: render_chain(&l2, &ops), class: "chain-unary-leaf" });
            }
        }
    }
    out
}

pub fn table_label(t: &Table) -> String {
    t.ops
        .iter()
        .filter_map(|o| o.bin.map(|(p, c)| format!("{}:{}{}{}", o.repr, p, if c { "c" } else { "" }, if o.unary { "u" } else { "" })))
        .collect::<Vec<_>>()
        .join(" ")
}

pub fn generic_tables(quick: bool, alpha: bool) -> Vec<Table> {
    let mut out = vec![];
    let mags: &[usize] = if quick { &[0] } else { &[0, 1, 2] };
    for ranks in weak_orders(3) {
        for &m in mags {
            for flags in 0..8u8 {
                out.push(generic_table(&ranks, m, flags, alpha));
            }
        }
    }
    out
}

#[derive(Clone, Debug)]
pub struct Program {
    pub tree: Option<Tree>,
    pub text: String,
    pub class: &'static str,
}

pub const LITS: [&str; 8] = ["1", "2", "3", "4", "5", "6", "7", "8"];

fn leaf(choice: usize, pos: usize) -> Tree {
    match choice {
        0 => Tree::var("x"),
        1 => Tree::var("y"),
        _ => Tree::lit(LITS[pos % LITS.len()]),
    }
}

/// all base trees with exactly `n` leaves over binary operators `bins`
pub fn base_trees(n: usize, bins: &[u16]) -> Vec<Tree> {
    let mut out = vec![];
    for sk in skeletons(n) {
        for ops in tuples(bins.len(), n - 1) {
            let ops: Vec<u16> = ops.iter().map(|&i| bins[i]).collect();
            for lv in tuples(3, n) {
                let leaves: Vec<Tree> = lv.iter().enumerate().map(|(p, &c)| leaf(c, p)).collect();
                out.push(fill(&sk, &ops, &leaves));
            }
        }
    }
    out
}

pub fn styles_for(t: &Tree, with_call: bool) -> Vec<Style> {
    let mut v = vec![
        Style { space: true, ..Default::default() },
        Style { brace_vars: true, ..Default::default() },
        Style { paren_all: true, ..Default::default() },
        Style { unary_paren: true, ..Default::default() },
        Style { space: true, brace_vars: true, paren_all: true, unary_paren: true, ..Default::default() },
    ];
    for i in 0..t.size() {
        v.push(Style { paren_at: Some(i), paren_depth: 1, ..Default::default() });
    }
    v.push(Style { paren_at: Some(0), paren_depth: 3, ..Default::default() });
    if t.size() > 1 {
        v.push(Style { paren_at: Some(t.size() - 1), paren_depth: 2, ..Default::default() });
    }
    if with_call {
        let nb = t.n_bin() as u32;
        for mask in 1..(1u32 << nb) {
            v.push(Style { call_mask: mask, ..Default::default() });
            v.push(Style { call_mask: mask, bare_unary_call: true, space: true, ..Default::default() });
            v.push(Style { call_mask: mask, paren_all: true, ..Default::default() });
        }
    }
    v
}

pub struct GenCfg {
    /// exhaustive base trees up to this many leaves
    pub exh_leaves: usize,
    /// base trees with this many leaves are stride-sampled
    pub sampled_leaves: Vec<(usize, usize)>,
    /// unary decorations on base trees up to this many leaves; stride
    pub dec_leaves: usize,
    pub dec_stride: usize,
    /// style variants on trees up to this many leaves; stride
    pub style_leaves: usize,
    pub style_stride: usize,
    pub call_forms: bool,
    pub seed: u64,
}

#[derive(Clone, Debug)]
pub struct OpsSel {
    pub bins: Vec<u16>,
    pub u1: u16,
    pub u2: u16,
    pub sign: u16,
    pub konst: u16,
}
impl OpsSel {
    pub fn generic() -> OpsSel {
        OpsSel { bins: vec![X, Y, Z], u1: U1, u2: U2, sign: Z, konst: PI }
    }
}

/// Programs for the generic table currently set (tree-generated, every text well-formed).
pub fn tree_programs(cfg: &GenCfg, table_salt: u64) -> Vec<Program> {
    tree_programs_sel(cfg, table_salt, &OpsSel::generic())
}

pub fn tree_programs_sel(cfg: &GenCfg, table_salt: u64, sel: &OpsSel) -> Vec<Program> {
    let bins = sel.bins.clone();
    let (u1v, u2v, zv, piv, xv, yv) = (sel.u1, sel.u2, sel.sign, sel.konst, sel.bins[0], sel.bins[1 % sel.bins.len()]);
    let mut out = vec![];
    let mut ctr: u64 = cfg.seed.wrapping_mul(0x9E37).wrapping_add(table_salt);
    let mut keep = |stride: usize| {
        ctr = ctr.wrapping_add(1);
        stride <= 1 || ctr % stride as u64 == 0
    };
    let canon = Style::default();
    let chains: Vec<Vec<u16>> = vec![vec![u1v], vec![zv], vec![u1v, zv], vec![zv, u1v], vec![u1v, u2v], vec![zv, zv]];
    let mut all: Vec<(usize, Tree)> = vec![];
    for n in 1..=cfg.exh_leaves {
        for t in base_trees(n, &bins) {
            all.push((n, t));
        }
    }
    for &(n, stride) in &cfg.sampled_leaves {
        for t in base_trees(n, &bins) {
            if keep(stride) {
                all.push((n, t));
            }
        }
    }
    // constants as leaves
    all.push((1, Tree::Konst(piv)));
    all.push((2, Tree::bin(xv, Tree::Konst(piv), Tree::var("x"))));
    all.push((2, Tree::bin(zv, Tree::var("x"), Tree::Konst(piv))));
    all.push((3, Tree::bin(yv, Tree::bin(xv, Tree::lit("2"), Tree::Konst(piv)), Tree::lit("3"))));
    for (n, t) in &all {
        out.push(Program { tree: Some(t.clone()), text: render(t, &canon), class: "canonical" });
        if *n <= cfg.style_leaves {
            for st in styles_for(t, cfg.call_forms) {
                if keep(cfg.style_stride) {
                    out.push(Program { tree: Some(t.clone()), text: render(t, &st), class: "styled" });
                }
            }
        }
        if *n <= cfg.dec_leaves {
            for pos in 0..t.size() {
                for ch in &chains {
                    if keep(cfg.dec_stride) {
                        let d = decorate(t, pos, ch);
                        out.push(Program { tree: Some(d.clone()), text: render(&d, &canon), class: "unary" });
                        if keep(3) {
                            let st = Style { unary_paren: true, space: true, ..Default::default() };
                            out.push(Program { tree: Some(d.clone()), text: render(&d, &st), class: "unary-styled" });
                        }
                        if cfg.call_forms && d.n_bin() > 0 && keep(2) {
                            let st = Style { call_mask: (1 << d.n_bin()) - 1, ..Default::default() };
                            out.push(Program { tree: Some(d.clone()), text: render(&d, &st), class: "unary-call" });
                        }
                    }
                }
            }
            // two decorated positions
            if t.size() >= 3 {
                for p1 in 0..t.size() {
                    for p2 in (p1 + 1)..t.size() {
                        if keep(cfg.dec_stride * 2) {
                            let d = decorate(&decorate(t, p2, &[u1v]), p1, &[zv]);
                            out.push(Program { tree: Some(d.clone()), text: render(&d, &canon), class: "unary2" });
                        }
                    }
                }
            }
        }
    }
    out
}

/// Seeded random larger trees (labelled as a slice, never as exhaustive).
pub fn random_trees(n_leaves: usize, count: usize, seed: u64) -> Vec<Tree> {
    let mut rng = Rng(seed ^ 0xABCDEF);
    let bins = [X, Y, Z];
    let mut out = vec![];
    fn build(rng: &mut Rng, n: usize, bins: &[u16], pos: &mut usize) -> Tree {
        let t = if n == 1 {
            let c = rng.below(3);
            *pos += 1;
            leaf(c, *pos - 1)
        } else {
            let l = 1 + rng.below(n - 1);
            let k = bins[rng.below(bins.len())];
            let a = build(rng, l, bins, pos);
            let b = build(rng, n - l, bins, pos);
            Tree::bin(k, a, b)
        };
        match rng.below(8) {
            0 => Tree::un(U1, t),
            1 => Tree::un(Z, t),
            2 => Tree::un(U2, Tree::un(Z, t)),
            _ => t,
        }
    }
    for _ in 0..count {
        out.push(build(&mut rng, n_leaves, &bins, &mut 0));
    }
    out
}

/// Long operator chains (no parentheses), `n` operands, operator pattern and literal pattern chosen
/// to force ascending / descending / alternating / inside-out application orders through the
/// public API (C14: tracker hand-over at 64 operands).
pub fn long_chain(n: usize, pattern: usize) -> Tree {
    // left-to-right chain a0 o1 a1 o2 a2 ...; the tree is built by precedence climbing over the
    // table currently set, which is exactly the documented semantics of an unparenthesised chain
    let ops: Vec<u16> = (0..n - 1)
        .map(|i| match pattern {
            0 => X,
            1 => [X, Y, Z][i % 3],
            2 => [Z, Y, X][i % 3],
            3 => if i % 2 == 0 { X } else { Y },
            4 => if i < n / 2 { X } else { Y },
            5 => if i < n / 2 { Y } else { X },
            _ => [X, X, Y, Z, Z, Y][i % 6],
        })
        .collect();
    let leaves: Vec<Tree> = (0..n)
        .map(|i| match (pattern + i) % 5 {
            0 | 3 => Tree::var("x"),
            1 => Tree::var("y"),
            _ => Tree::lit(LITS[i % LITS.len()]),
        })
        .collect();
    chain_to_tree(&leaves, &ops)
}

/// Documented semantics of a flat chain: descending priority, left-to-right among equals.
pub fn chain_to_tree(leaves: &[Tree], ops: &[u16]) -> Tree {
    let prios: Vec<i64> = crate::table::with_table(|t| ops.iter().map(|k| t.ops[*k as usize].bin.unwrap().0).collect());
    let mut nodes: Vec<Tree> = leaves.to_vec();
    let mut ops: Vec<(u16, i64)> = ops.iter().copied().zip(prios).collect();
    while !ops.is_empty() {
        // leftmost operator of maximal priority
        let maxp = ops.iter().map(|o| o.1).max().unwrap();
        let i = ops.iter().position(|o| o.1 == maxp).unwrap();
        let r = nodes.remove(i + 1);
        let l = std::mem::replace(&mut nodes[i], Tree::lit("0"));
        nodes[i] = Tree::bin(ops[i].0, l, r);
        ops.remove(i);
    }
    nodes.pop().unwrap()
}

pub fn render_chain(leaves: &[Tree], ops: &[u16]) -> String {
    let canon = Style::default();
    let mut s = render(&leaves[0], &canon);
    for (i, k) in ops.iter().enumerate() {
        let r = crate::table::repr_of(*k);
        let alpha = r.chars().next().unwrap().is_alphabetic();
        if alpha {
            s.push(' ');
        }
        s.push_str(&r);
        if alpha {
            s.push(' ');
        }
        s.push_str(&render(&leaves[i + 1], &canon));
    }
    s
}

/// Raw token sequences over the full alphabet (differential and rejection properties).
pub const RAW_ALPHABET: [&str; 11] = ["1", "x", "y", "(", ")", ",", "%", "-", "sin", "min", "#"];

pub fn raw_sequences(max_len: usize, stride: usize, seed: u64) -> Vec<Vec<usize>> {
    let mut out = vec![];
    let mut ctr = seed;
    for len in 0..=max_len {
        for v in tuples(RAW_ALPHABET.len(), len) {
            ctr = ctr.wrapping_add(1);
            if len <= 4 || stride <= 1 || ctr % stride as u64 == 0 {
                out.push(v);
            }
        }
    }
    out
}

pub fn raw_text(seq: &[usize], sep: &str) -> String {
    seq.iter().map(|&i| RAW_ALPHABET[i]).collect::<Vec<_>>().join(sep)
}

