//! Native replay helper for engine M: applies the real default operator to concrete operands and
//! compares with the Rust primitive its name documents.
use crate::Args;
use exmex::{FloatOpsFactory, MakeOperators};

macro_rules! prim {
    ($t:ty, $name:expr, $role:expr, $a:expr, $b:expr) => {{
        let a: $t = $a;
        let b: $t = $b;
        match ($role, $name) {
            ("bin", "^") => Some(a.powf(b)),
            ("bin", "*") => Some(a * b),
            ("bin", "/") => Some(a / b),
            ("bin", "+") => Some(a + b),
            ("bin", "-") => Some(a - b),
            ("bin", "atan2") => Some(a.atan2(b)),
            ("bin", "min") => Some(a.min(b)),
            ("bin", "max") => Some(a.max(b)),
            ("un", "+") => Some(a),
            ("un", "-") => Some(-a),
            ("un", "abs") => Some(a.abs()),
            ("un", "signum") => Some(a.signum()),
            ("un", "sin") => Some(a.sin()),
            ("un", "cos") => Some(a.cos()),
            ("un", "tan") => Some(a.tan()),
            ("un", "asin") => Some(a.asin()),
            ("un", "acos") => Some(a.acos()),
            ("un", "atan") => Some(a.atan()),
            ("un", "sinh") => Some(a.sinh()),
            ("un", "cosh") => Some(a.cosh()),
            ("un", "tanh") => Some(a.tanh()),
            ("un", "asinh") => Some(a.asinh()),
            ("un", "acosh") => Some(a.acosh()),
            ("un", "atanh") => Some(a.atanh()),
            ("un", "floor") => Some(a.floor()),
            ("un", "round") => Some(a.round()),
            ("un", "ceil") => Some(a.ceil()),
            ("un", "trunc") => Some(a.trunc()),
            ("un", "fract") => Some(a.fract()),
            ("un", "exp") => Some(a.exp()),
            ("un", "sqrt") => Some(a.sqrt()),
            ("un", "cbrt") => Some(a.cbrt()),
            ("un", "ln") | ("un", "log") => Some(a.ln()),
            ("un", "log2") => Some(a.log2()),
            ("un", "log10") => Some(a.log10()),
            _ => None,
        }
    }};
}

pub fn run(args: &Args) -> i32 {
    let name = args.get("name", "");
    let role = args.get("role", "bin");
    let width: u32 = args.get("width", "64").parse().unwrap();
    let abits: u64 = args.get("a", "0").parse().unwrap();
    let bbits: u64 = args.get("b", "0").parse().unwrap();
    if width == 64 {
        let (a, b) = (f64::from_bits(abits), f64::from_bits(bbits));
        let ops = FloatOpsFactory::<f64>::make();
        let Some(op) = ops.iter().find(|o| o.repr() == name) else {
            println!("operator {name} not in table: DIFFERS");
            return 0;
        };
        let got = if role == "bin" { op.bin().map(|f| (f.apply)(a, b)) } else { op.unary().map(|f| f(a)) };
        let want = prim!(f64, name.as_str(), role.as_str(), a, b);
        match (got, want) {
            (Ok(g), Some(w)) => {
                let same = g.to_bits() == w.to_bits() || (g.is_nan() && w.is_nan());
                println!("a={a:e} ({abits:#x}) b={b:e} ({bbits:#x}) table={g:e} ({:#x}) primitive={w:e} ({:#x}) {}", g.to_bits(), w.to_bits(), if same { "SAME" } else { "DIFFERS" });
            }
            _ => println!("role not available: DIFFERS"),
        }
    } else {
        let (a, b) = (f32::from_bits(abits as u32), f32::from_bits(bbits as u32));
        let ops = FloatOpsFactory::<f32>::make();
        let Some(op) = ops.iter().find(|o| o.repr() == name) else {
            println!("operator {name} not in table: DIFFERS");
            return 0;
        };
        let got = if role == "bin" { op.bin().map(|f| (f.apply)(a, b)) } else { op.unary().map(|f| f(a)) };
        let want = prim!(f32, name.as_str(), role.as_str(), a, b);
        match (got, want) {
            (Ok(g), Some(w)) => {
                let same = g.to_bits() == w.to_bits() || (g.is_nan() && w.is_nan());
                println!("a={a:e} ({abits:#x}) b={b:e} ({bbits:#x}) table={g:e} ({:#x}) primitive={w:e} ({:#x}) {}", g.to_bits(), w.to_bits(), if same { "SAME" } else { "DIFFERS" });
            }
            _ => println!("role not available: DIFFERS"),
        }
    }
    0
}
