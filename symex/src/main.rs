mod calc;
mod cval;
mod extra;
mod families;
mod floatop;
mod nra;
mod oracle;
mod pipelines;
mod props;
mod smt;
mod sweep;
mod sym;
mod table;
mod tree;

use std::collections::HashMap;

pub struct Args {
    pub cmd: String,
    pub opts: HashMap<String, String>,
}

impl Args {
    pub fn get(&self, k: &str, default: &str) -> String {
        self.opts.get(k).cloned().unwrap_or_else(|| default.to_string())
    }
    pub fn tier_quick(&self) -> bool {
        self.get("tier", "quick") != "thorough"
    }
    pub fn seed(&self) -> u64 {
        self.get("seed", "0").parse().unwrap_or(0)
    }
    pub fn threads(&self) -> usize {
        self.get("threads", "16").parse().unwrap_or(16)
    }
}

fn main() {
    let mut it = std::env::args().skip(1);
    let cmd = it.next().unwrap_or_else(|| {
        eprintln!("usage: symex <cmd> [--key value]...");
        std::process::exit(64)
    });
    let mut opts = HashMap::new();
    let rest: Vec<String> = it.collect();
    let mut i = 0;
    while i < rest.len() {
        if let Some(k) = rest[i].strip_prefix("--") {
            let v = rest.get(i + 1).cloned().unwrap_or_default();
            opts.insert(k.to_string(), v);
            i += 2;
        } else {
            i += 1;
        }
    }
    let args = Args { cmd, opts };
    let code = props::dispatch(&args);
    std::process::exit(code);
}
