//! Concrete replay data type: `CVal(u16)`. A `sat` model of a UFBV query is turned into finite
//! function tables; the real exmex code is then run natively at `T = CVal` on the same text and
//! table, and the reference tree is evaluated with the same functions. Only a difference that
//! shows up in this concrete run is reported as a violation.
use crate::smt::{bv_value, Theory};
use crate::sym::{self, Id, Node};
use crate::table::{self, with_table, Interp};
use crate::tree::Tree;
use exmex::{BinOp, MakeOperators, Operator};
use std::cell::RefCell;
use std::collections::{BTreeMap, HashMap};
use std::fmt;
use std::str::FromStr;

#[derive(Default, Clone)]
pub struct CModel {
    pub lits: HashMap<String, u16>,
    pub vars: HashMap<String, u16>,
    pub konsts: HashMap<u16, u16>,
    pub un: HashMap<(u16, u16), u16>,
    pub bin: HashMap<(u16, u16, u16), u16>,
    pub poison: u16,
}

thread_local! {
    pub static CMODEL: RefCell<CModel> = RefCell::new(CModel::default());
}

fn mix(a: u64) -> u16 {
    let mut z = a.wrapping_add(0x9E3779B97F4A7C15);
    z = (z ^ (z >> 30)).wrapping_mul(0xBF58476D1CE4E5B9);
    z = (z ^ (z >> 27)).wrapping_mul(0x94D049BB133111EB);
    ((z ^ (z >> 31)) & 0xffff) as u16
}
fn hash_str(s: &str) -> u16 {
    mix(s.bytes().fold(1469598103934665603u64, |h, b| (h ^ b as u64).wrapping_mul(1099511628211)))
}

#[derive(Clone, Default, PartialEq)]
pub struct CVal(pub u16);

const C_RESERVED: &str = "88088.";

impl fmt::Debug for CVal {
    fn fmt(&self, f: &mut fmt::Formatter<'_>) -> fmt::Result {
        write!(f, "{}{:05}", C_RESERVED, self.0)
    }
}
#[derive(Debug)]
pub struct CParseErr;
impl FromStr for CVal {
    type Err = CParseErr;
    fn from_str(s: &str) -> Result<Self, Self::Err> {
        if let Some(r) = s.strip_prefix(C_RESERVED) {
            return r.parse::<u16>().map(CVal).map_err(|_| CParseErr);
        }
        if sym::parse_rat(s).is_none() {
            return Err(CParseErr);
        }
        Ok(CVal(CMODEL.with(|m| m.borrow().lits.get(s).copied().unwrap_or_else(|| hash_str(s)))))
    }
}

pub fn c_bin(k: u16, a: CVal, b: CVal) -> CVal {
    let v = match table::interp_bin(k, Theory::Ufbv) {
        Interp::Builtin("bvadd") => a.0.wrapping_add(b.0),
        Interp::Builtin("bvmul") => a.0.wrapping_mul(b.0),
        Interp::Builtin("bvxor") => a.0 ^ b.0,
        Interp::Builtin("bvor") => a.0 | b.0,
        Interp::Builtin("bvand") => a.0 & b.0,
        Interp::Builtin(o) => panic!("unknown builtin {o}"),
        Interp::Template(_) => panic!("templates are NRA only"),
        Interp::Ac(n) => {
            let c = (2 * (n / 3) + 1) as u16;
            match n % 3 {
                0 => a.0.wrapping_add(b.0).wrapping_add(c),
                1 => a.0.wrapping_mul(b.0).wrapping_mul(c),
                _ => a.0 ^ b.0 ^ c,
            }
        }
        Interp::Uf(_) => CMODEL.with(|m| {
            m.borrow().bin.get(&(k, a.0, b.0)).copied().unwrap_or_else(|| mix(((k as u64) << 40) | ((a.0 as u64) << 20) | b.0 as u64 | 1 << 60))
        }),
    };
    CVal(v)
}
pub fn c_un(k: u16, a: CVal) -> CVal {
    CVal(CMODEL.with(|m| m.borrow().un.get(&(k, a.0)).copied().unwrap_or_else(|| mix(((k as u64) << 40) | a.0 as u64 | 1 << 61))))
}

macro_rules! c_fn_pools {
    ($($k:literal)*) => {
        pub static C_BIN_FNS: &[fn(CVal, CVal) -> CVal] = &[$( |a, b| c_bin($k, a, b) ),*];
        pub static C_UN_FNS: &[fn(CVal) -> CVal] = &[$( |a| c_un($k, a) ),*];
    };
}
c_fn_pools!(0 1 2 3 4 5 6 7 8 9 10 11 12 13 14 15 16 17 18 19 20 21 22 23 24 25 26 27 28 29
    30 31 32 33 34 35 36 37 38 39 40 41 42 43 44 45 46 47 48 49 50 51 52 53 54 55 56 57 58 59
    60 61 62 63 64 65 66 67 68 69 70 71 72 73 74 75 76 77 78 79);

fn konst_val(k: u16) -> u16 {
    CMODEL.with(|m| m.borrow().konsts.get(&k).copied().unwrap_or_else(|| mix(k as u64 | 1 << 62)))
}

#[derive(Clone, Debug)]
pub struct CValOps;
impl MakeOperators<CVal> for CValOps {
    fn make<'a>() -> Vec<Operator<'a, CVal>> {
        with_table(|t| {
            t.ops
                .iter()
                .enumerate()
                .map(|(k, o)| {
                    if o.konst {
                        Operator::make_constant(o.repr, CVal(konst_val(k as u16)))
                    } else {
                        match (o.bin, o.unary) {
                            (Some((prio, c)), false) => Operator::make_bin(o.repr, BinOp { apply: C_BIN_FNS[k], prio, is_commutative: c }),
                            (Some((prio, c)), true) => {
                                Operator::make_bin_unary(o.repr, BinOp { apply: C_BIN_FNS[k], prio, is_commutative: c }, C_UN_FNS[k])
                            }
                            (None, true) => Operator::make_unary(o.repr, C_UN_FNS[k]),
                            (None, false) => panic!("operator without capability"),
                        }
                    }
                })
                .collect()
        })
    }
}

pub fn var_val(name: &str) -> CVal {
    CVal(CMODEL.with(|m| m.borrow().vars.get(name).copied().unwrap_or_else(|| hash_str(name))))
}

pub fn eval_tree(t: &Tree) -> CVal {
    match t {
        Tree::Lit(s) => CVal::from_str(s).unwrap(),
        Tree::Var(n) => var_val(n),
        Tree::Konst(k) => CVal(konst_val(*k)),
        Tree::Un(k, a) => c_un(*k, eval_tree(a)),
        Tree::Paren(a) => eval_tree(a),
        Tree::Bin(k, a, b) | Tree::Call(k, a, b) => {
            let x = eval_tree(a);
            let y = eval_tree(b);
            c_bin(*k, x, y)
        }
    }
}

/// Builds the concrete model from the solver's values of all nodes reachable from the two sides.
pub fn install_model(roots: &[Id], model: &BTreeMap<String, String>) -> bool {
    let mut cm = CModel::default();
    let val = |i: Id| model.get(&format!("n{i}")).and_then(|s| bv_value(s));
    for i in crate::smt::reachable(roots) {
        let Some(v) = val(i) else { return false };
        match sym::node(i) {
            Node::Poison => cm.poison = v,
            Node::Lit(t) => {
                cm.lits.insert(t, v);
            }
            Node::Rat(..) => {}
            Node::Var(n) => {
                cm.vars.insert(n, v);
            }
            Node::Konst(k) => {
                cm.konsts.insert(k, v);
            }
            Node::Un(k, a) => {
                let Some(av) = val(a) else { return false };
                cm.un.insert((k, av), v);
            }
            Node::Bin(k, a, b) => {
                if let Interp::Uf(_) = table::interp_bin(k, Theory::Ufbv) {
                    // (templates do not occur in UFBV)
                    let (Some(av), Some(bv)) = (val(a), val(b)) else { return false };
                    cm.bin.insert((k, av, bv), v);
                }
            }
        }
    }
    CMODEL.with(|m| *m.borrow_mut() = cm);
    true
}

pub fn model_summary() -> serde_json::Value {
    CMODEL.with(|m| {
        let m = m.borrow();
        serde_json::json!({
            "vars": m.vars.iter().collect::<BTreeMap<_, _>>(),
            "lits": m.lits.iter().collect::<BTreeMap<_, _>>(),
            "unary_points": m.un.iter().map(|((k, a), v)| format!("{}({a})={v}", table::repr_of(*k))).collect::<Vec<_>>(),
            "binary_points": m.bin.iter().map(|((k, a, b), v)| format!("{a} {} {b}={v}", table::repr_of(*k))).collect::<Vec<_>>(),
        })
    })
}
