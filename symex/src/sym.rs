//! `Sym`: the proxy data type. A `Sym` is a handle into a thread-local, hash-consed term arena.
//! The real generic exmex code is instantiated at `T = Sym`; every operator application,
//! literal and variable becomes a term node.
use std::cell::RefCell;
use std::collections::HashMap;
use std::fmt;
use std::str::FromStr;

pub type Id = u32;

#[derive(Clone, PartialEq, Eq, Hash, Debug)]
pub enum Node {
    /// the moved-out placeholder of `mem::take` (`Default`)
    Poison,
    /// a literal of the expression text, kept symbolic (free constant per distinct text)
    Lit(String),
    /// exact rational (numerator, denominator>0), used for `From<u8>`, `From<f32>` and literals in exact mode
    Rat(i64, i64),
    /// variable, by name
    Var(String),
    /// named constant of the operator table (index into table)
    Konst(u16),
    Un(u16, Id),
    Bin(u16, Id, Id),
}

#[derive(Default)]
pub struct Arena {
    pub nodes: Vec<Node>,
    pub index: HashMap<Node, Id>,
    /// clone counter per node id (C15)
    pub clones: HashMap<Id, u32>,
    /// an operator received the placeholder
    pub poison_reached_op: bool,
    pub count_clones: bool,
}

thread_local! {
    pub static ARENA: RefCell<Arena> = RefCell::new(Arena::new());
    /// true: literal texts become exact rationals; false: free constants
    pub static EXACT_LITS: RefCell<bool> = const { RefCell::new(false) };
}

impl Arena {
    pub fn new() -> Self {
        let mut a = Arena::default();
        a.nodes.push(Node::Poison);
        a.index.insert(Node::Poison, 0);
        a
    }
    pub fn mk(&mut self, n: Node) -> Id {
        if let Some(&i) = self.index.get(&n) {
            return i;
        }
        let i = self.nodes.len() as Id;
        self.nodes.push(n.clone());
        self.index.insert(n, i);
        i
    }
}

pub fn reset_arena() {
    ARENA.with(|a| *a.borrow_mut() = Arena::new());
}
pub fn arena_len() -> usize {
    ARENA.with(|a| a.borrow().nodes.len())
}
pub fn node(id: Id) -> Node {
    ARENA.with(|a| a.borrow().nodes[id as usize].clone())
}
pub fn mk(n: Node) -> Sym {
    Sym(ARENA.with(|a| a.borrow_mut().mk(n)))
}
pub fn set_exact_lits(b: bool) {
    EXACT_LITS.with(|e| *e.borrow_mut() = b);
}
pub fn poison_reached_op() -> bool {
    ARENA.with(|a| a.borrow().poison_reached_op)
}
pub fn set_count_clones(b: bool) {
    ARENA.with(|a| {
        let mut a = a.borrow_mut();
        a.count_clones = b;
        a.clones.clear();
    });
}
pub fn clones_of(id: Id) -> u32 {
    ARENA.with(|a| a.borrow().clones.get(&id).copied().unwrap_or(0))
}

pub struct Sym(pub Id);

impl Sym {
    pub fn var(name: &str) -> Sym {
        mk(Node::Var(name.to_string()))
    }
    pub fn rat(n: i64, d: i64) -> Sym {
        let (n, d) = norm(n, d);
        mk(Node::Rat(n, d))
    }
    pub fn is_poison(&self) -> bool {
        self.0 == 0
    }
}

fn gcd(a: i64, b: i64) -> i64 {
    if b == 0 {
        a.abs()
    } else {
        gcd(b, a % b)
    }
}
pub fn norm(n: i64, d: i64) -> (i64, i64) {
    let g = gcd(n, d).max(1);
    let (n, d) = (n / g, d / g);
    if d < 0 {
        (-n, -d)
    } else {
        (n, d)
    }
}

impl Clone for Sym {
    fn clone(&self) -> Self {
        ARENA.with(|a| {
            let mut a = a.borrow_mut();
            if a.count_clones {
                *a.clones.entry(self.0).or_insert(0) += 1;
            }
        });
        Sym(self.0)
    }
}

impl Default for Sym {
    fn default() -> Self {
        Sym(0)
    }
}

/// Reserved literal pattern under which non-literal constant nodes print (and parse back).
/// It conforms to `NumberMatcher` (digits with one inner dot).
pub const RESERVED_PREFIX: &str = "77077.";

impl fmt::Debug for Sym {
    fn fmt(&self, f: &mut fmt::Formatter<'_>) -> fmt::Result {
        match node(self.0) {
            Node::Lit(t) => f.write_str(&t),
            // like a negative float, a negative exact constant prints with a leading `-` (which the tokenizer reads back
            // as a unary minus applied to the positive literal; ground arithmetic folds that to the same node)
            Node::Rat(n, d) if n < 0 && n != i64::MIN => {
                let pos = Sym::rat(-n, d);
                write!(f, "-{}{:07}", RESERVED_PREFIX, pos.0)
            }
            _ => write!(f, "{}{:07}", RESERVED_PREFIX, self.0),
        }
    }
}

#[derive(Debug)]
pub struct SymParseErr(pub String);

pub fn parse_rat(s: &str) -> Option<(i64, i64)> {
    // digits with at most one dot
    let mut n: i64 = 0;
    let mut d: i64 = 1;
    let mut seen_dot = false;
    let mut any = false;
    for c in s.chars() {
        if c == '.' {
            if seen_dot {
                return None;
            }
            seen_dot = true;
        } else if let Some(k) = c.to_digit(10) {
            any = true;
            n = n.checked_mul(10)?.checked_add(k as i64)?;
            if seen_dot {
                d = d.checked_mul(10)?;
            }
        } else {
            return None;
        }
    }
    if any {
        Some(norm(n, d))
    } else {
        None
    }
}

impl FromStr for Sym {
    type Err = SymParseErr;
    fn from_str(s: &str) -> Result<Self, Self::Err> {
        if let Some(rest) = s.strip_prefix(RESERVED_PREFIX) {
            if rest.len() == 7 {
                if let Ok(id) = rest.parse::<u32>() {
                    if (id as usize) < arena_len() {
                        return Ok(Sym(id));
                    }
                }
            }
            return Err(SymParseErr(format!("dangling reserved literal {s}")));
        }
        if parse_rat(s).is_none() {
            return Err(SymParseErr(format!("not a literal: {s}")));
        }
        if EXACT_LITS.with(|e| *e.borrow()) {
            let (n, d) = parse_rat(s).unwrap();
            Ok(Sym::rat(n, d))
        } else {
            Ok(mk(Node::Lit(s.to_string())))
        }
    }
}

impl From<u8> for Sym {
    fn from(v: u8) -> Self {
        Sym::rat(v as i64, 1)
    }
}
impl From<f32> for Sym {
    fn from(v: f32) -> Self {
        // only small dyadic values occur (2.0, 10.0, ...)
        let scaled = (v as f64) * 1024.0;
        assert!(scaled.fract() == 0.0, "unexpected f32 constant {v}");
        Sym::rat(scaled as i64, 1024)
    }
}
impl From<f64> for Sym {
    fn from(v: f64) -> Self {
        // pi(), e(), tau() helper constructors; keep as named irrational constants
        mk(Node::Lit(format!("{v}")))
    }
}

pub fn mk_bin(k: u16, a: Sym, b: Sym) -> Sym {
    if a.is_poison() || b.is_poison() {
        ARENA.with(|ar| ar.borrow_mut().poison_reached_op = true);
    }
    // arithmetic tables: ground rational arithmetic is carried out exactly (canonical form of ground terms)
    if let Some(r) = crate::table::with_table(|t| if t.arithmetic { Some(t.ops[k as usize].repr) } else { None }) {
        if let (Node::Rat(n1, d1), Node::Rat(n2, d2)) = (node(a.0), node(b.0)) {
            let res = match r {
                "+" => n1.checked_mul(d2).and_then(|x| n2.checked_mul(d1).and_then(|y| x.checked_add(y))).zip(d1.checked_mul(d2)),
                "-" => n1.checked_mul(d2).and_then(|x| n2.checked_mul(d1).and_then(|y| x.checked_sub(y))).zip(d1.checked_mul(d2)),
                "*" => n1.checked_mul(n2).zip(d1.checked_mul(d2)),
                "/" if n2 != 0 => n1.checked_mul(d2).zip(d1.checked_mul(n2)),
                _ => None,
            };
            if let Some((n, d)) = res {
                return Sym::rat(n, d);
            }
        }
    }
    mk(Node::Bin(k, a.0, b.0))
}
pub fn mk_un(k: u16, a: Sym) -> Sym {
    if a.is_poison() {
        ARENA.with(|ar| ar.borrow_mut().poison_reached_op = true);
    }
    if let Some(r) = crate::table::with_table(|t| if t.arithmetic { Some(t.ops[k as usize].repr) } else { None }) {
        if let Node::Rat(n, d) = node(a.0) {
            match r {
                "+" => return Sym::rat(n, d),
                "-" => return Sym::rat(-n, d),
                _ => {}
            }
        }
    }
    mk(Node::Un(k, a.0))
}

impl PartialEq for Sym {
    fn eq(&self, other: &Sym) -> bool {
        crate::oracle::decide_eq(self.0, other.0)
    }
}

macro_rules! fn_pools {
    ($($k:literal)*) => {
        pub static BIN_FNS: &[fn(Sym, Sym) -> Sym] = &[$( |a, b| mk_bin($k, a, b) ),*];
        pub static UN_FNS: &[fn(Sym) -> Sym] = &[$( |a| mk_un($k, a) ),*];
    };
}
fn_pools!(0 1 2 3 4 5 6 7 8 9 10 11 12 13 14 15 16 17 18 19 20 21 22 23 24 25 26 27 28 29
    30 31 32 33 34 35 36 37 38 39 40 41 42 43 44 45 46 47 48 49 50 51 52 53 54 55 56 57 58 59
    60 61 62 63 64 65 66 67 68 69 70 71 72 73 74 75 76 77 78 79);

/// Pretty printer of a term for evidence / replay files.
pub fn show(id: Id, names: &dyn Fn(u16) -> String) -> String {
    match node(id) {
        Node::Poison => "POISON".into(),
        Node::Lit(t) => t,
        Node::Rat(n, d) => {
            if d == 1 {
                format!("{n}")
            } else {
                format!("{n}/{d}")
            }
        }
        Node::Var(v) => v,
        Node::Konst(k) => names(k),
        Node::Un(k, a) => format!("{}[{}]", names(k), show(a, names)),
        Node::Bin(k, a, b) => format!("({} {} {})", show(a, names), names(k), show(b, names)),
    }
}
