//! The sweep: for every table, every program and every pipeline run the real library at `T = Sym`
//! and let the solver decide `implementation term = reference term` for all values.
use crate::families::{table_label, Program};
use crate::oracle::{self, with_solver};
use crate::pipelines;
use crate::smt::{self, Theory, Verdict};
use crate::sym::{self, Id, Sym};
use crate::table::{self, SymOps, Table};
use serde_json::{json, Value};
use std::collections::BTreeMap;
use std::panic::{catch_unwind, AssertUnwindSafe};
use std::sync::atomic::{AtomicUsize, Ordering};
use std::sync::Mutex;
use std::time::Instant;

#[derive(Default, Clone)]
pub struct Stats {
    pub programs: u64,
    pub vcs: u64,
    pub vcs_identical: u64,
    pub batches: u64,
    pub queries: u64,
    pub sat: u64,
    pub unsat: u64,
    pub inconclusive: u64,
    pub solver_s: f64,
    pub rejected: u64,
    pub panics: u64,
    pub varname_mismatch: u64,
    pub violations: u64,
    pub by_class: BTreeMap<String, u64>,
    pub distinct_texts: u64,
    pub accepted: u64,
    pub rejected_raw: u64,
    pub acceptance_mismatch: u64,
    /// hashes of distinct program texts that contain at least one operator application
    pub text_hashes: std::collections::HashSet<u64>,
}

impl Stats {
    pub fn merge(&mut self, o: &Stats) {
        self.programs += o.programs;
        self.vcs += o.vcs;
        self.vcs_identical += o.vcs_identical;
        self.batches += o.batches;
        self.queries += o.queries;
        self.sat += o.sat;
        self.unsat += o.unsat;
        self.inconclusive += o.inconclusive;
        self.solver_s += o.solver_s;
        self.rejected += o.rejected;
        self.panics += o.panics;
        self.varname_mismatch += o.varname_mismatch;
        self.violations += o.violations;
        for (k, v) in &o.by_class {
            *self.by_class.entry(k.clone()).or_insert(0) += v;
        }
        self.distinct_texts += o.distinct_texts;
        self.accepted += o.accepted;
        self.rejected_raw += o.rejected_raw;
        self.acceptance_mismatch += o.acceptance_mismatch;
        self.text_hashes.extend(o.text_hashes.iter().copied());
    }
    pub fn note_text(&mut self, table_salt: u64, text: &str) {
        use std::hash::{Hash, Hasher};
        // memory cap: beyond 2 million entries per worker the count becomes a lower bound
        if self.text_hashes.len() >= 2_000_000 {
            return;
        }
        let mut h = std::collections::hash_map::DefaultHasher::new();
        table_salt.hash(&mut h);
        text.hash(&mut h);
        self.text_hashes.insert(h.finish());
    }
    pub fn to_json(&self) -> Value {
        json!({
            "programs": self.programs, "vcs": self.vcs, "vcs_syntactically_identical": self.vcs_identical,
            "batches": self.batches, "queries": self.queries, "sat": self.sat, "unsat": self.unsat,
            "inconclusive": self.inconclusive, "solver_s": (self.solver_s * 1000.0).round() / 1000.0,
            "rejected_wellformed": self.rejected, "panics": self.panics, "varname_mismatch": self.varname_mismatch,
            "violations": self.violations, "by_class": self.by_class,
            "distinct_nontrivial_programs": self.text_hashes.len(),
            "raw_accepted": self.accepted, "raw_rejected": self.rejected_raw, "acceptance_mismatch": self.acceptance_mismatch,
        })
    }
}

#[derive(Clone, Debug)]
pub struct Finding {
    pub kind: &'static str, // "value" | "rejected" | "panic" | "varnames" | "inconclusive" | "poison" | "listing"
    pub pipeline: String,
    pub table: Table,
    pub text: String,
    pub tree: String,
    pub impl_term: String,
    pub ref_term: String,
    pub detail: String,
    pub model: BTreeMap<String, String>,
    /// concrete replay at T = CVal: Some(true) = the difference reproduces natively
    pub confirmed: Option<bool>,
    pub concrete: Value,
    pub tree_json: Value,
}

impl Finding {
    pub fn to_json(&self) -> Value {
        json!({
            "kind": self.kind, "pipeline": self.pipeline, "table": table_to_json(&self.table),
            "table_label": table_label(&self.table),
            "text": self.text, "tree": self.tree, "impl": self.impl_term, "ref": self.ref_term,
            "detail": self.detail, "model": self.model, "confirmed": self.confirmed, "concrete": self.concrete,
            "tree_json": self.tree_json,
        })
    }
}

pub fn table_to_json(t: &Table) -> Value {
    json!({
        "arithmetic": t.arithmetic,
        "not_really_ac": t.not_really_ac,
        "ops": t.ops.iter().map(|o| json!({
            "repr": o.repr, "prio": o.bin.map(|b| b.0), "comm": o.bin.map(|b| b.1), "binary": o.bin.is_some(),
            "unary": o.unary, "konst": o.konst})).collect::<Vec<_>>()
    })
}

pub fn table_from_json(v: &Value) -> Table {
    let ops = v["ops"]
        .as_array()
        .unwrap()
        .iter()
        .map(|o| {
            let repr: &'static str = Box::leak(o["repr"].as_str().unwrap().to_string().into_boxed_str());
            table::OpSpec {
                repr,
                bin: if o["binary"].as_bool().unwrap() { Some((o["prio"].as_i64().unwrap(), o["comm"].as_bool().unwrap())) } else { None },
                unary: o["unary"].as_bool().unwrap(),
                konst: o["konst"].as_bool().unwrap(),
            }
        })
        .collect();
    let nra: Vec<&'static str> = v["not_really_ac"]
        .as_array()
        .map(|a| a.iter().map(|s| &*Box::leak(s.as_str().unwrap().to_string().into_boxed_str())).collect())
        .unwrap_or_default();
    Table { ops, arithmetic: v["arithmetic"].as_bool().unwrap_or(false), not_really_ac: nra }
}

pub fn show_term(id: Id) -> String {
    sym::show(id, &|k| table::repr_of(k))
}

pub struct Vc {
    pub prog: usize,
    pub pipeline: &'static str,
    pub imp: Id,
    pub rf: Id,
}

pub enum RunResult {
    Value(Id, Vec<String>, String),
    Rejected(String),
    Panic(String),
}

pub fn run_sym(pipeline: &str, text: &str) -> RunResult {
    let r = catch_unwind(AssertUnwindSafe(|| pipelines::run::<Sym, SymOps, _>(pipeline, text, &|n: &str| Sym::var(n))));
    match r {
        Ok(Ok(o)) => RunResult::Value(o.value.0, o.var_names, o.unparsed),
        Ok(Err(e)) => RunResult::Rejected(e.msg().to_string()),
        Err(p) => {
            let msg = if let Some(s) = p.downcast_ref::<String>() {
                s.clone()
            } else if let Some(s) = p.downcast_ref::<&str>() {
                s.to_string()
            } else {
                "panic".to_string()
            };
            RunResult::Panic(msg)
        }
    }
}

/// Decide one VC on its own; returns verdict and, when sat, the model of all nodes and free constants.
pub fn decide_single(imp: Id, rf: Id, th: Theory, extra: &[String]) -> (Verdict, BTreeMap<String, String>) {
    let em = smt::emit(&[imp, rf], th);
    let mut s = em.script.clone();
    for l in &em.lemmas {
        s.push_str(&format!("(assert {l})\n"));
    }
    for d in &em.domain {
        s.push_str(&format!("(assert {d})\n"));
    }
    for e in extra {
        s.push_str(&format!("(assert {e})\n"));
    }
    s.push_str(&format!("(assert (distinct n{imp} n{rf}))\n(check-sat)\n"));
    let (v, _) = with_solver(|sol| sol.check(&s));
    let mut model = BTreeMap::new();
    if v == Verdict::Sat {
        // ask again with get-value for every node (kept separate so that an `(error` in get-value cannot mask the verdict)
        let ids = smt::reachable(&[imp, rf]);
        let names: Vec<String> = ids.iter().map(|i| format!("n{i}")).chain(em.free_consts.iter().cloned()).collect();
        let s2 = format!("{s}(get-value ({}))\n", names.join(" "));
        let (v2, rest) = with_solver(|sol| sol.check(&s2));
        if v2 == Verdict::Sat {
            model = smt::parse_get_value(&rest);
        }
    }
    (v, model)
}

pub struct SweepCfg<'a> {
    pub tables: Vec<Table>,
    pub gen: &'a (dyn Fn(usize, &Table) -> Vec<Program> + Sync),
    pub pipelines: Vec<&'static str>,
    pub theory: Theory,
    pub batch: usize,
    pub threads: usize,
    pub timeout_ms: u64,
    pub max_findings: usize,
    /// check that surplus/consuming pipelines do not let the placeholder reach an operator
    pub check_poison: bool,
    /// differential programs: a pipeline accepting what the base pipeline rejects (or vice versa) is a violation
    pub acceptance_must_agree: bool,
}

pub struct SweepOut {
    pub stats: Stats,
    pub findings: Vec<Finding>,
    pub samples: Vec<Value>,
    pub wall_s: f64,
}

/// Process-wide count of solver-found value violations that were not refuted by the concrete replay. Once it reaches
/// EARLY_STOP the remaining chunks of every sweep are skipped: the verdict (VIOLATION, exit 1) is already settled, and on a
/// tree where nearly every batch fails, deciding every VC on its own would take tens of minutes. Never triggers on a tree
/// where the property holds (no violations), so coverage there is unchanged.
pub static CONFIRMED_VIOLATIONS: AtomicUsize = AtomicUsize::new(0);
pub const EARLY_STOP: usize = 64;

pub fn sweep(cfg: &SweepCfg) -> SweepOut {
    let next = AtomicUsize::new(0);
    let total = Mutex::new((Stats::default(), Vec::<Finding>::new(), Vec::<Value>::new()));
    let t0 = Instant::now();
    std::panic::set_hook(Box::new(|_| {}));
    std::thread::scope(|sc| {
        for _ in 0..cfg.threads {
            // deep expressions recurse once per nesting level (a 257-operand chain converted to deep form nests 256 levels)
            std::thread::Builder::new().stack_size(1 << 30).spawn_scoped(sc, || {
                oracle::init_solver(cfg.timeout_ms);
                oracle::set_theory(cfg.theory);
                let mut st = Stats::default();
                let mut findings: Vec<Finding> = vec![];
                let mut samples: Vec<Value> = vec![];
                loop {
                    let ti = next.fetch_add(1, Ordering::SeqCst);
                    if ti >= cfg.tables.len() {
                        break;
                    }
                    let tab = &cfg.tables[ti];
                    table::set_table(tab);
                    let progs = (cfg.gen)(ti, tab);
                    for chunk in progs.chunks(cfg.batch) {
                        if CONFIRMED_VIOLATIONS.load(Ordering::Relaxed) >= EARLY_STOP {
                            break;
                        }
                        run_batch(cfg, tab, chunk, &mut st, &mut findings, &mut samples, ti);
                    }
                }
                let (q, s, u, i, t) = with_solver(|s| (s.queries, s.sat, s.unsat, s.inconclusive, s.time.as_secs_f64()));
                st.queries += q;
                st.sat += s;
                st.unsat += u;
                st.inconclusive += i;
                st.solver_s += t;
                oracle::drop_solvers();
                let mut g = total.lock().unwrap();
                g.0.merge(&st);
                g.1.extend(findings);
                if g.2.len() < 12 {
                    g.2.extend(samples.into_iter().take(3));
                }
            }).expect("spawn worker");
        }
    });
    let _ = std::panic::take_hook();
    let (stats, mut findings, samples) = total.into_inner().unwrap();
    findings.truncate(cfg.max_findings.max(1) * 50);
    SweepOut { stats, findings, samples, wall_s: t0.elapsed().as_secs_f64() }
}

fn run_batch(
    cfg: &SweepCfg,
    tab: &Table,
    chunk: &[Program],
    st: &mut Stats,
    findings: &mut Vec<Finding>,
    samples: &mut Vec<Value>,
    ti: usize,
) {
    sym::reset_arena();
    let mut vcs: Vec<Vc> = vec![];
    let mk_finding = |kind: &'static str, pl: &str, p: &Program, imp: String, rf: String, detail: String| Finding {
        kind,
        pipeline: pl.to_string(),
        table: tab.clone(),
        text: p.text.clone(),
        tree: p.tree.as_ref().map(|t| t.show()).unwrap_or_default(),
        impl_term: imp,
        ref_term: rf,
        detail,
        model: BTreeMap::new(),
        confirmed: None,
        concrete: Value::Null,
        tree_json: p.tree.as_ref().map(|t| t.to_json()).unwrap_or(Value::Null),
    };
    for (pi, p) in chunk.iter().enumerate() {
        st.programs += 1;
        *st.by_class.entry(p.class.to_string()).or_insert(0) += 1;
        if p.tree.as_ref().map(|t| t.size() > 1).unwrap_or(p.text.len() > 1) {
            st.note_text(ti as u64, &p.text);
        }
        // reference: the tree itself, or (differential programs) the value of the first pipeline
        let mut reference: Option<(Id, Vec<String>)> = p.tree.as_ref().map(|t| (t.to_sym().0, t.var_names()));
        let differential = p.tree.is_none();
        for (pli, &pl) in cfg.pipelines.iter().enumerate() {
            sym::ARENA.with(|a| a.borrow_mut().poison_reached_op = false);
            match run_sym(pl, &p.text) {
                RunResult::Value(imp, vars, _unparsed) => {
                    if differential && pli == 0 {
                        st.accepted += 1;
                        reference = Some((imp, vars));
                        continue;
                    }
                    let Some((rf, ref_vars)) = reference.clone() else {
                        // differential: the base pipeline rejected but this one accepted
                        st.acceptance_mismatch += 1;
                        if cfg.acceptance_must_agree {
                            st.violations += 1;
                            if findings.len() < cfg.max_findings {
                                findings.push(mk_finding("acceptance", pl, p, show_term(imp), String::new(), format!("{} rejects, {pl} accepts", cfg.pipelines[0])));
                            }
                        }
                        continue;
                    };
                    if vars != ref_vars {
                        st.varname_mismatch += 1;
                        st.violations += 1;
                        if findings.len() < cfg.max_findings {
                            findings.push(mk_finding("varnames", pl, p, format!("{vars:?}"), format!("{ref_vars:?}"), String::new()));
                        }
                    }
                    if cfg.check_poison && sym::poison_reached_op() {
                        st.violations += 1;
                        if findings.len() < cfg.max_findings {
                            findings.push(mk_finding("poison", pl, p, show_term(imp), show_term(rf), "moved-out placeholder reached an operator".into()));
                        }
                    }
                    st.vcs += 1;
                    if imp == rf {
                        st.vcs_identical += 1;
                    }
                    vcs.push(Vc { prog: pi, pipeline: pl, imp, rf });
                }
                RunResult::Rejected(msg) => {
                    if differential {
                        if pli == 0 {
                            st.rejected_raw += 1;
                        } else if reference.is_some() {
                            st.acceptance_mismatch += 1;
                            if cfg.acceptance_must_agree {
                                st.violations += 1;
                                if findings.len() < cfg.max_findings {
                                    findings.push(mk_finding("acceptance", pl, p, String::new(), String::new(), format!("{} accepts, {pl} rejects: {msg}", cfg.pipelines[0])));
                                }
                            }
                        }
                        continue;
                    }
                    st.rejected += 1;
                    st.violations += 1;
                    if findings.len() < cfg.max_findings {
                        findings.push(mk_finding("rejected", pl, p, String::new(), reference.as_ref().map(|r| show_term(r.0)).unwrap_or_default(), msg));
                    }
                }
                RunResult::Panic(msg) => {
                    st.panics += 1;
                    st.violations += 1;
                    if findings.len() < cfg.max_findings {
                        findings.push(mk_finding("panic", pl, p, String::new(), String::new(), msg));
                    }
                }
            }
        }
    }
    if vcs.is_empty() {
        return;
    }
    if samples.len() < 3 && ti % 7 == 0 {
        let v = &vcs[vcs.len() / 2];
        samples.push(json!({"table": table_label(tab), "text": chunk[v.prog].text, "pipeline": v.pipeline,
            "impl": show_term(v.imp), "ref": show_term(v.rf)}));
    }
    // one batched query: unsat <=> every VC of the batch holds for all values
    st.batches += 1;
    let roots: Vec<Id> = vcs.iter().flat_map(|v| [v.imp, v.rf]).collect();
    let em = smt::emit(&roots, cfg.theory);
    let mut s = em.script;
    let disj: Vec<String> = vcs.iter().map(|v| format!("(distinct n{} n{})", v.imp, v.rf)).collect();
    if disj.len() == 1 {
        s.push_str(&format!("(assert {})\n(check-sat)\n", disj[0]));
    } else {
        s.push_str(&format!("(assert (or {}))\n(check-sat)\n", disj.join(" ")));
    }
    let (v, _) = with_solver(|sol| sol.check(&s));
    if v == Verdict::Unsat {
        return;
    }
    // some VC fails (or the batch was inconclusive): decide each on its own
    for vc in &vcs {
        if vc.imp == vc.rf {
            continue;
        }
        let (v1, model) = decide_single(vc.imp, vc.rf, cfg.theory, &[]);
        match v1 {
            Verdict::Unsat => {}
            Verdict::Sat => {
                st.violations += 1;
                if findings.len() >= cfg.max_findings {
                    CONFIRMED_VIOLATIONS.fetch_add(1, Ordering::Relaxed);
                }
                if findings.len() < cfg.max_findings {
                    let mut f = mk_finding("value", vc.pipeline, &chunk[vc.prog], show_term(vc.imp), show_term(vc.rf), String::new());
                    f.detail = format!("impl=n{} ref=n{}", vc.imp, vc.rf);
                    if cfg.theory == Theory::Ufbv {
                        let (c, conc) = concrete_replay(vc.pipeline, cfg.pipelines[0], &chunk[vc.prog], vc.imp, vc.rf, &model);
                        f.confirmed = Some(c);
                        f.concrete = conc;
                    }
                    f.model = model.into_iter().filter(|(k, _)| !k.starts_with('n')).collect();
                    if f.confirmed != Some(false) {
                        CONFIRMED_VIOLATIONS.fetch_add(1, Ordering::Relaxed);
                    }
                    findings.push(f);
                }
            }
            Verdict::Inconclusive => {
                if findings.len() < cfg.max_findings {
                    findings.push(mk_finding("inconclusive", vc.pipeline, &chunk[vc.prog], show_term(vc.imp), show_term(vc.rf), String::new()));
                }
            }
        }
    }
}

/// Runs the real library natively at T = CVal under the solver's model and compares with the
/// concretely evaluated reference tree.
pub fn concrete_replay(pipeline: &str, base_pipeline: &str, p: &Program, imp: Id, rf: Id, model: &BTreeMap<String, String>) -> (bool, Value) {
    use crate::cval::{self, CVal, CValOps};
    if !cval::install_model(&[imp, rf], model) {
        return (false, json!({"error": "model incomplete"}));
    }
    let r = catch_unwind(AssertUnwindSafe(|| pipelines::run::<CVal, CValOps, _>(pipeline, &p.text, &|n: &str| cval::var_val(n))));
    let rv = match p.tree.as_ref() {
        Some(tree) => cval::eval_tree(tree),
        None => match catch_unwind(AssertUnwindSafe(|| pipelines::run::<CVal, CValOps, _>(base_pipeline, &p.text, &|n: &str| cval::var_val(n)))) {
            Ok(Ok(o)) => o.value,
            _ => return (false, json!({"error": "concrete base run failed"})),
        },
    };
    match r {
        Ok(Ok(o)) => (
            o.value != rv,
            json!({"impl_value": o.value.0, "ref_value": rv.0, "model": cval::model_summary()}),
        ),
        Ok(Err(e)) => (false, json!({"error": format!("concrete run rejected: {}", e.msg())})),
        Err(_) => (false, json!({"error": "concrete run panicked"})),
    }
}
