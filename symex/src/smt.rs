//! Solver plumbing: persistent `z3 -in` / `cvc5 --incremental` processes, SMT-LIB emission of arena terms.
use crate::sym::{self, Id, Node};
use crate::table::{self, Interp};
use std::collections::{BTreeMap, BTreeSet};
use std::io::{BufRead, BufReader, Write};
use std::process::{Child, ChildStdin, ChildStdout, Command, Stdio};
use std::time::{Duration, Instant};

#[derive(Clone, Copy, PartialEq, Eq, Debug)]
pub enum Verdict {
    Sat,
    Unsat,
    /// unknown / timeout / `(error` line in the output: never counted as a pass
    Inconclusive,
}

pub struct Solver {
    pub name: String,
    child: std::sync::Arc<std::sync::Mutex<Child>>,
    stdin: ChildStdin,
    stdout: BufReader<ChildStdout>,
    /// hard deadline (ms since start) of the outstanding query, 0 = none; enforced by a watchdog thread
    deadline: std::sync::Arc<std::sync::atomic::AtomicU64>,
    alive: std::sync::Arc<std::sync::atomic::AtomicBool>,
    timeout_ms: u64,
    pub killed: u64,
    ctr: u64,
    pub queries: u64,
    pub sat: u64,
    pub unsat: u64,
    pub inconclusive: u64,
    pub time: Duration,
    pub last_output: Vec<String>,
    t0: Instant,
    dead: bool,
}

impl Solver {
    pub fn spawn(which: &str, timeout_ms: u64) -> Solver {
        let mut cmd = match which {
            "z3" => {
                let mut c = Command::new("/usr/bin/z3");
                c.arg("-in").arg(format!("-t:{timeout_ms}"));
                c
            }
            "z3-new" => {
                let mut c = Command::new("z3-new");
                c.arg("-in").arg(format!("-t:{timeout_ms}"));
                c
            }
            "cvc5" => {
                let mut c = Command::new("cvc5");
                c.arg("--lang=smt2")
                    .arg("--incremental")
                    .arg("--produce-models")
                    .arg(format!("--tlimit-per={timeout_ms}"));
                c
            }
            _ => panic!("unknown solver {which}"),
        };
        // the solver must not outlive this process (a killed check would otherwise leave spinning solvers behind)
        unsafe {
            use std::os::unix::process::CommandExt;
            cmd.pre_exec(|| {
                libc::prctl(libc::PR_SET_PDEATHSIG, libc::SIGKILL);
                Ok(())
            });
        }
        let mut child = cmd
            .stdin(Stdio::piped())
            .stdout(Stdio::piped())
            .stderr(Stdio::null())
            .spawn()
            .unwrap_or_else(|e| panic!("cannot spawn {which}: {e}"));
        let stdin = child.stdin.take().unwrap();
        let stdout = BufReader::new(child.stdout.take().unwrap());
        let child = std::sync::Arc::new(std::sync::Mutex::new(child));
        let deadline = std::sync::Arc::new(std::sync::atomic::AtomicU64::new(0));
        let alive = std::sync::Arc::new(std::sync::atomic::AtomicBool::new(true));
        {
            // watchdog: the solver's own soft timeout is not always honoured inside nonlinear arithmetic
            let (c, d, a) = (child.clone(), deadline.clone(), alive.clone());
            let t0 = Instant::now();
            std::thread::spawn(move || loop {
                std::thread::sleep(Duration::from_millis(250));
                if !a.load(std::sync::atomic::Ordering::SeqCst) {
                    break;
                }
                let dl = d.load(std::sync::atomic::Ordering::SeqCst);
                if dl != 0 && (t0.elapsed().as_millis() as u64) > dl {
                    let _ = c.lock().unwrap().kill();
                    d.store(0, std::sync::atomic::Ordering::SeqCst);
                }
            });
        }
        let mut s = Solver {
            name: which.to_string(),
            child,
            stdin,
            stdout,
            deadline,
            alive,
            timeout_ms,
            killed: 0,
            ctr: 0,
            queries: 0,
            sat: 0,
            unsat: 0,
            inconclusive: 0,
            time: Duration::ZERO,
            last_output: vec![],
            t0: Instant::now(),
            dead: false,
        };
        s.t0 = Instant::now();
        s.raw("(set-logic ALL)\n(set-option :produce-models true)\n");
        s
    }
    fn respawn(&mut self) {
        let fresh = Solver::spawn(&self.name, self.timeout_ms);
        let (q, sa, un, inc, t, k) = (self.queries, self.sat, self.unsat, self.inconclusive, self.time, self.killed);
        *self = fresh;
        self.queries = q;
        self.sat = sa;
        self.unsat = un;
        self.inconclusive = inc;
        self.time = t;
        self.killed = k + 1;
    }

    /// Sends a script, returns all output lines up to the end marker.
    pub fn raw(&mut self, script: &str) -> Vec<String> {
        if self.dead {
            self.respawn();
        }
        self.ctr += 1;
        let marker = format!("END-{}", self.ctr);
        let t0 = Instant::now();
        // hard deadline: a few soft timeouts (a script may contain several check-sats) plus slack
        let dl = self.t0.elapsed().as_millis() as u64 + 3 * self.timeout_ms + 5_000;
        self.deadline.store(dl, std::sync::atomic::Ordering::SeqCst);
        let w = self.stdin.write_all(script.as_bytes()).and_then(|_| self.stdin.write_all(format!("\n(echo \"{marker}\")\n").as_bytes())).and_then(|_| self.stdin.flush());
        if w.is_err() {
            self.dead = true;
            self.deadline.store(0, std::sync::atomic::Ordering::SeqCst);
            return vec!["(error \"solver died\")".to_string()];
        }
        let mut out = vec![];
        loop {
            let mut line = String::new();
            let n = self.stdout.read_line(&mut line).unwrap_or(0);
            if n == 0 {
                out.push("(error \"solver died or was killed by the watchdog\")".to_string());
                self.dead = true;
                break;
            }
            let l = line.trim_end().to_string();
            if l.contains(&marker) {
                break;
            }
            out.push(l);
        }
        self.deadline.store(0, std::sync::atomic::Ordering::SeqCst);
        self.time += t0.elapsed();
        out
    }

    /// `script` must contain exactly one `(check-sat)`; it is wrapped in push/pop.
    /// Returns the verdict and the raw lines following the verdict (e.g. get-value output).
    pub fn check(&mut self, script: &str) -> (Verdict, Vec<String>) {
        let full = format!("(push 1)\n{script}\n(pop 1)\n");
        let out = self.raw(&full);
        self.queries += 1;
        let has_error = out.iter().any(|l| l.contains("(error"));
        let mut verdict = Verdict::Inconclusive;
        let mut rest = vec![];
        let mut seen = false;
        for l in &out {
            if !seen {
                match l.as_str() {
                    "sat" => {
                        verdict = Verdict::Sat;
                        seen = true;
                    }
                    "unsat" => {
                        verdict = Verdict::Unsat;
                        seen = true;
                    }
                    "unknown" | "timeout" => {
                        verdict = Verdict::Inconclusive;
                        seen = true;
                    }
                    _ => {}
                }
            } else {
                rest.push(l.clone());
            }
        }
        // an `(error` before or with an unsat answer makes it inconclusive (a dropped assertion
        // could turn sat into unsat); errors after `sat` come from get-value on unknown names only
        if has_error && verdict != Verdict::Sat {
            verdict = Verdict::Inconclusive;
        }
        match verdict {
            Verdict::Sat => self.sat += 1,
            Verdict::Unsat => self.unsat += 1,
            Verdict::Inconclusive => self.inconclusive += 1,
        }
        self.last_output = out;
        (verdict, rest)
    }
}

impl Drop for Solver {
    fn drop(&mut self) {
        self.alive.store(false, std::sync::atomic::Ordering::SeqCst);
        let _ = self.stdin.write_all(b"(exit)\n");
        if let Ok(mut c) = self.child.lock() {
            let _ = c.kill();
            let _ = c.wait();
        }
    }
}

/// Which theory the terms are emitted in.
#[derive(Clone, Copy, PartialEq, Eq, Debug)]
pub enum Theory {
    /// 16-bit vectors; flagged operators are genuinely AC (bvadd, bvmul, bvxor, ...), the rest uninterpreted
    Ufbv,
    /// reals; + - * / interpreted, everything else uninterpreted with ground lemmas
    Nra,
}

pub const BV: &str = "(_ BitVec 16)";

fn sort(th: Theory) -> &'static str {
    match th {
        Theory::Ufbv => BV,
        Theory::Nra => "Real",
    }
}

/// Collects all nodes reachable from the roots, ascending (children before parents).
pub fn reachable(roots: &[Id]) -> Vec<Id> {
    let mut seen = BTreeSet::new();
    let mut stack: Vec<Id> = roots.to_vec();
    while let Some(i) = stack.pop() {
        if !seen.insert(i) {
            continue;
        }
        match sym::node(i) {
            Node::Un(_, a) => stack.push(a),
            Node::Bin(_, a, b) => {
                stack.push(a);
                stack.push(b);
            }
            _ => {}
        }
    }
    seen.into_iter().collect()
}

fn sanitize(s: &str) -> String {
    s.chars()
        .map(|c| if c.is_ascii_alphanumeric() { c.to_string() } else { format!("_{:x}_", c as u32) })
        .collect()
}

fn rat_smt(n: i64, d: i64) -> String {
    let num = if n < 0 { format!("(- {}.0)", -n) } else { format!("{n}.0") };
    if d == 1 {
        num
    } else {
        format!("(/ {num} {d}.0)")
    }
}

pub struct Emitted {
    /// declarations + definitions of `n<ID>` for every reachable node
    pub script: String,
    /// names of free constants (variables, literals, table constants), for get-value
    pub free_consts: Vec<String>,
    /// domain side conditions (NRA)
    pub domain: Vec<String>,
    /// ground lemmas (NRA)
    pub lemmas: Vec<String>,
}

/// Emits declarations and `define-fun`s for all nodes reachable from `roots` under the current table.
pub fn emit(roots: &[Id], th: Theory) -> Emitted {
    let s = sort(th);
    let ids = reachable(roots);
    let mut decl_consts: BTreeMap<String, ()> = BTreeMap::new();
    let mut decl_ufs: BTreeMap<String, usize> = BTreeMap::new();
    let mut defs = String::new();
    let mut domain = vec![];
    let mut lemmas = vec![];
    for &i in &ids {
        let body = match sym::node(i) {
            Node::Poison => {
                decl_consts.insert("poison".into(), ());
                "poison".to_string()
            }
            Node::Lit(t) => {
                let n = format!("lit_{}", sanitize(&t));
                decl_consts.insert(n.clone(), ());
                n
            }
            Node::Rat(n, d) => match th {
                Theory::Nra => rat_smt(n, d),
                Theory::Ufbv => {
                    let name = format!("rat_{}_{}", if n < 0 { format!("m{}", -n) } else { n.to_string() }, d);
                    decl_consts.insert(name.clone(), ());
                    name
                }
            },
            Node::Var(v) => {
                let n = format!("var_{}", sanitize(&v));
                decl_consts.insert(n.clone(), ());
                n
            }
            Node::Konst(k) => {
                let n = format!("konst_{}", sanitize(&table::repr_of(k)));
                decl_consts.insert(n.clone(), ());
                n
            }
            Node::Un(k, a) => match table::interp_un(k, th) {
                Interp::Builtin(f) => {
                    if f == "id" {
                        format!("n{a}")
                    } else {
                        format!("({f} n{a})")
                    }
                }
                Interp::Uf(f) => {
                    decl_ufs.insert(f.clone(), 1);
                    if th == Theory::Nra && f == "uu_tan" {
                        decl_ufs.insert("uu_cos".into(), 1);
                    }
                    if th == Theory::Nra {
                        crate::nra::unary_side(&f, a, i, &mut domain, &mut lemmas);
                    }
                    format!("({f} n{a})")
                }
                Interp::Template(_) | Interp::Ac(_) => unreachable!(),
            },
            Node::Bin(k, a, b) => match table::interp_bin(k, th) {
                // further genuinely AC functions: a (+) b (+) c, a (*) b (*) c, a xor b xor c with a constant c
                Interp::Ac(n) => {
                    let base = ["bvadd", "bvmul", "bvxor"][n % 3];
                    format!("({base} ({base} n{a} n{b}) #x{:04x})", 2 * (n / 3) + 1)
                }
                Interp::Builtin(f) => {
                    if th == Theory::Nra && f == "/" {
                        domain.push(format!("(not (= n{b} 0.0))"));
                    }
                    format!("({f} n{a} n{b})")
                }
                Interp::Uf(f) => {
                    decl_ufs.insert(f.clone(), 2);
                    if th == Theory::Nra {
                        crate::nra::binary_side(&f, a, b, i, &mut domain, &mut lemmas, &mut decl_ufs);
                    }
                    format!("({f} n{a} n{b})")
                }
                Interp::Template(t) => {
                    if t.contains("val_none") {
                        decl_consts.insert("val_none".into(), ());
                        // ordinary values are never the none value
                        if t.starts_with("(ite (not") {
                            domain.push(format!("(distinct n{a} val_none)"));
                        } else {
                            domain.push(format!("(distinct n{b} val_none)"));
                        }
                    }
                    t.replace("{a}", &format!("n{a}")).replace("{b}", &format!("n{b}"))
                }
            },
        };
        defs.push_str(&format!("(define-fun n{i} () {s} {body})\n"));
    }
    let mut script = String::new();
    for c in decl_consts.keys() {
        script.push_str(&format!("(declare-const {c} {s})\n"));
    }
    for (f, ar) in &decl_ufs {
        let args = vec![s; *ar].join(" ");
        script.push_str(&format!("(declare-fun {f} ({args}) {s})\n"));
    }
    script.push_str(&defs);
    Emitted { script, free_consts: decl_consts.keys().cloned().collect(), domain, lemmas }
}

/// Parses `((name value) (name value) ...)` output of get-value, one pair per element, into a map of raw strings.
pub fn parse_get_value(lines: &[String]) -> BTreeMap<String, String> {
    let text = lines.join(" ");
    let mut out = BTreeMap::new();
    // tokenise by parentheses depth
    let bytes: Vec<char> = text.chars().collect();
    let mut depth = 0;
    let mut start = 0;
    for (i, &c) in bytes.iter().enumerate() {
        if c == '(' {
            depth += 1;
            if depth == 2 {
                start = i + 1;
            }
        } else if c == ')' {
            if depth == 2 {
                let inner: String = bytes[start..i].iter().collect();
                let inner = inner.trim();
                if let Some(sp) = inner.find(char::is_whitespace) {
                    let (n, v) = inner.split_at(sp);
                    out.insert(n.trim().to_string(), v.trim().to_string());
                }
            }
            depth -= 1;
        }
    }
    out
}

/// `#x1a2b` / `#b0101` -> u16
pub fn bv_value(s: &str) -> Option<u16> {
    if let Some(h) = s.strip_prefix("#x") {
        u16::from_str_radix(h, 16).ok()
    } else if let Some(b) = s.strip_prefix("#b") {
        u16::from_str_radix(b, 2).ok()
    } else {
        None
    }
}
