//! The real exmex API, driven generically in the data type `T` and operator factory `OF`:
//! each pipeline takes a text and produces the value of the resulting expression at the given
//! variable values (for `T = Sym`: a term).
use exmex::prelude::*;
use exmex::{DataType, DeepEx, ExResult, MakeOperators, NumberMatcher};
use std::fmt::Debug;
use std::str::FromStr;

pub type Flat<T, OF> = FlatEx<T, OF, NumberMatcher>;
pub type Deep<'a, T, OF> = DeepEx<'a, T, OF, NumberMatcher>;

pub struct Outcome<T> {
    pub value: T,
    pub var_names: Vec<String>,
    /// extra facts for path-level assertions
    pub unparsed: String,
    pub n_flat_nodes_hint: usize,
}

pub const STRUCTURAL: &[&str] = &[
    "flat",
    "flat_wo",
    "flat_recompile",
    "flat_wo_compile2",
    "deep",
    "flat>deep",
    "flat>deep>flat",
    "deep>flat",
    "deep>flat>deep",
    "flat>deep>flat>deep",
    "deep>flat>deep>flat",
    "flat_wo>deep",
    "flat_wo>deep>flat",
    "reparse_deep",
    "reparse_flat_from_deep",
    "flat_relaxed",
    "deep_relaxed",
    "flat_vec",
    "flat_iter",
    "flat_wo_vec",
    "flat_wo_iter",
];

fn vals<T, F: Fn(&str) -> T>(names: &[String], mk: &F) -> Vec<T> {
    names.iter().map(|n| mk(n)).collect()
}

/// Runs pipeline `name` on `text`. `mk` makes the value of a variable from its name.
pub fn run<T, OF, F>(name: &str, text: &str, mk: &F) -> ExResult<Outcome<T>>
where
    T: DataType + 'static,
    <T as FromStr>::Err: Debug,
    OF: MakeOperators<T> + Debug + 'static,
    F: Fn(&str) -> T,
{
    let out = |value: T, var_names: &[String], unparsed: &str| {
        Ok(Outcome { value, var_names: var_names.to_vec(), unparsed: unparsed.to_string(), n_flat_nodes_hint: 0 })
    };
    match name {
        "flat" => {
            let e = Flat::<T, OF>::parse(text)?;
            let v = e.eval(&vals(e.var_names(), mk))?;
            out(v, e.var_names(), e.unparse())
        }
        "flat_relaxed" => {
            let e = Flat::<T, OF>::parse(text)?;
            // surplus values must be ignored
            let mut vs = vals(e.var_names(), mk);
            vs.push(mk("surplus_1"));
            vs.push(mk("surplus_2"));
            let v = e.eval_relaxed(&vs)?;
            out(v, e.var_names(), e.unparse())
        }
        "deep_relaxed" => {
            let e = Deep::<T, OF>::parse(text)?;
            let mut vs = vals(e.var_names(), mk);
            vs.push(mk("surplus_1"));
            let v = e.eval_relaxed(&vs)?;
            out(v, e.var_names(), e.unparse())
        }
        "flat_vec" => {
            let e = Flat::<T, OF>::parse(text)?;
            let v = e.eval_vec(vals(e.var_names(), mk))?;
            out(v, e.var_names(), e.unparse())
        }
        "flat_iter" => {
            let e = Flat::<T, OF>::parse(text)?;
            let v = e.eval_iter(vals(e.var_names(), mk).into_iter())?;
            out(v, e.var_names(), e.unparse())
        }
        "flat_wo_vec" => {
            let e = Flat::<T, OF>::parse_wo_compile(text)?;
            let v = e.eval_vec(vals(e.var_names(), mk))?;
            out(v, e.var_names(), e.unparse())
        }
        "flat_wo_iter" => {
            let e = Flat::<T, OF>::parse_wo_compile(text)?;
            let v = e.eval_iter(vals(e.var_names(), mk).into_iter())?;
            out(v, e.var_names(), e.unparse())
        }
        "flat_wo" => {
            let e = Flat::<T, OF>::parse_wo_compile(text)?;
            let v = e.eval(&vals(e.var_names(), mk))?;
            out(v, e.var_names(), e.unparse())
        }
        "flat_recompile" => {
            let mut e = Flat::<T, OF>::parse(text)?;
            e.compile();
            let v = e.eval(&vals(e.var_names(), mk))?;
            out(v, e.var_names(), e.unparse())
        }
        "flat_wo_compile2" => {
            let mut e = Flat::<T, OF>::parse_wo_compile(text)?;
            e.compile();
            e.compile();
            let v = e.eval(&vals(e.var_names(), mk))?;
            out(v, e.var_names(), e.unparse())
        }
        "deep" => {
            let e = Deep::<T, OF>::parse(text)?;
            let v = e.eval(&vals(e.var_names(), mk))?;
            out(v, e.var_names(), e.unparse())
        }
        "reparse_deep" => {
            // C12: the text printed by a deep expression parses back to the same expression
            let e = Deep::<T, OF>::parse(text)?;
            let printed = e.unparse().to_string();
            let e2 = Deep::<T, OF>::parse(&printed)?;
            let v = e2.eval(&vals(e2.var_names(), mk))?;
            out(v, e2.var_names(), e2.unparse())
        }
        "reparse_flat_from_deep" => {
            let e = Deep::<T, OF>::parse(text)?;
            let f = Flat::<T, OF>::from_deepex(e)?;
            let printed = f.unparse().to_string();
            let e2 = Flat::<T, OF>::parse(&printed)?;
            let v = e2.eval(&vals(e2.var_names(), mk))?;
            out(v, e2.var_names(), e2.unparse())
        }
        "flat_serde" | "deep>flat_serde" => {
            // C12: serialising and deserialising a flat expression preserves it
            let e = if name == "flat_serde" {
                Flat::<T, OF>::parse(text)?
            } else {
                Flat::<T, OF>::from_deepex(Deep::<T, OF>::parse(text)?)?
            };
            let ser = serde_json::to_string(&e).map_err(|e| exmex::ExError::new(&format!("serialize: {e}")))?;
            let e2: Flat<T, OF> = serde_json::from_str(&ser).map_err(|e| exmex::ExError::new(&format!("deserialize: {e}")))?;
            let v = e2.eval(&vals(e2.var_names(), mk))?;
            out(v, e2.var_names(), e2.unparse())
        }
        "followups" => {
            // C06: everything that can be done with an accepted expression must not panic
            let e = Flat::<T, OF>::parse(text)?;
            let _ = e.unparse().len();
            let _ = (e.unary_reprs(), e.binary_reprs(), e.operator_reprs());
            let _ = format!("{e}");
            let _ = e.var_indices_ordered();
            let _ = e.eval_relaxed(&vals(e.var_names(), mk));
            let d = e.clone().to_deepex()?;
            let _ = d.unparse().len();
            let _ = (d.unary_reprs(), d.binary_reprs(), d.operator_reprs());
            let _ = format!("{d}");
            let _ = d.eval(&vals(d.var_names(), mk));
            let back = Flat::<T, OF>::from_deepex(d)?;
            let _ = back.eval(&vals(back.var_names(), mk));
            let d2 = Deep::<T, OF>::parse(text)?;
            let _ = (d2.unary_reprs(), d2.binary_reprs(), d2.operator_reprs());
            let w = Flat::<T, OF>::parse_wo_compile(text)?;
            let _ = w.eval_vec(vals(w.var_names(), mk));
            let _ = w.eval_iter(vals(w.var_names(), mk).into_iter());
            if let Some(first) = e.var_names().first() {
                // operator application and substitution on the accepted expression
                let first = first.clone();
                let other = Flat::<T, OF>::parse(text)?;
                let _ = e.clone().subs(&mut |n: &str| if n == first { Some(other.clone()) } else { None });
            }
            let v = e.eval(&vals(e.var_names(), mk))?;
            out(v, e.var_names(), e.unparse())
        }
        _ if name.contains('>') => {
            // conversion histories: start form, then alternating conversions
            let mut steps = name.split('>');
            let first = steps.next().unwrap();
            enum E<'a, T: DataType, OF: MakeOperators<T>>
            where
                <T as FromStr>::Err: Debug,
            {
                F(Flat<T, OF>),
                D(Deep<'a, T, OF>),
            }
            let mut cur: E<T, OF> = match first {
                "flat" => E::F(Flat::<T, OF>::parse(text)?),
                "flat_wo" => E::F(Flat::<T, OF>::parse_wo_compile(text)?),
                "deep" => E::D(Deep::<T, OF>::parse(text)?),
                _ => panic!("unknown start {first}"),
            };
            for s in steps {
                cur = match (s, cur) {
                    ("deep", E::F(f)) => E::D(f.to_deepex()?),
                    ("flat", E::D(d)) => E::F(Flat::<T, OF>::from_deepex(d)?),
                    // identity conversions of the trait
                    ("deep", E::D(d)) => E::D(d.to_deepex()?),
                    ("flat", E::F(f)) => E::F(f),
                    _ => panic!("bad step"),
                };
            }
            match cur {
                E::F(e) => {
                    let v = e.eval(&vals(e.var_names(), mk))?;
                    out(v, e.var_names(), e.unparse())
                }
                E::D(e) => {
                    let v = e.eval(&vals(e.var_names(), mk))?;
                    out(v, e.var_names(), e.unparse())
                }
            }
        }
        _ => panic!("unknown pipeline {name}"),
    }
}

/// operator listings of both forms (C03), as concrete strings
pub struct Listings {
    pub flat: (Vec<String>, Vec<String>, Vec<String>),
    pub deep: (Vec<String>, Vec<String>, Vec<String>),
}
pub fn listings<T, OF>(text: &str) -> ExResult<Listings>
where
    T: DataType + 'static,
    <T as FromStr>::Err: Debug,
    OF: MakeOperators<T> + Debug,
{
    let f = Flat::<T, OF>::parse(text)?;
    let d = Deep::<T, OF>::parse(text)?;
    let v = |s: &[String]| s.to_vec();
    Ok(Listings {
        flat: (v(&f.unary_reprs()), v(&f.binary_reprs()), v(&f.operator_reprs())),
        deep: (v(&d.unary_reprs()), v(&d.binary_reprs()), v(&d.operator_reprs())),
    })
}
