//! Operator tables for `T = Sym`. `MakeOperators::make` has no receiver, so the table is a
//! thread-local that one factory type reads. Function bodies are term constructors; all
//! metadata (repr, prio, is_commutative, unary/binary/constant capability) is free.
use crate::smt::Theory;
use crate::sym::{self, Sym, BIN_FNS, UN_FNS};
use exmex::{BinOp, MakeOperators, Operator};
use std::cell::RefCell;

#[derive(Clone, Debug, PartialEq)]
pub struct OpSpec {
    pub repr: &'static str,
    /// (prio, is_commutative)
    pub bin: Option<(i64, bool)>,
    pub unary: bool,
    pub konst: bool,
}

impl OpSpec {
    pub const fn bin(repr: &'static str, prio: i64, comm: bool) -> OpSpec {
        OpSpec { repr, bin: Some((prio, comm)), unary: false, konst: false }
    }
    pub const fn dual(repr: &'static str, prio: i64, comm: bool) -> OpSpec {
        OpSpec { repr, bin: Some((prio, comm)), unary: true, konst: false }
    }
    pub const fn un(repr: &'static str) -> OpSpec {
        OpSpec { repr, bin: None, unary: true, konst: false }
    }
    pub const fn konst(repr: &'static str) -> OpSpec {
        OpSpec { repr, bin: None, unary: false, konst: true }
    }
}

#[derive(Clone, Debug, Default, PartialEq)]
pub struct Table {
    pub ops: Vec<OpSpec>,
    /// which interpretation family: false = generic (flag => AC builtin), true = arithmetic reprs (NRA)
    pub arithmetic: bool,
    /// flagged operators whose flag is NOT to be honoured as AC (e.g. `==`, `cross` in the Val table)
    pub not_really_ac: Vec<&'static str>,
}

thread_local! {
    pub static TABLE: RefCell<Table> = RefCell::new(Table::default());
}

pub fn set_table(t: &Table) {
    assert!(t.ops.len() <= BIN_FNS.len());
    TABLE.with(|c| *c.borrow_mut() = t.clone());
}
pub fn with_table<R>(f: impl FnOnce(&Table) -> R) -> R {
    TABLE.with(|c| f(&c.borrow()))
}
pub fn repr_of(k: u16) -> String {
    with_table(|t| t.ops[k as usize].repr.to_string())
}
pub fn idx_of(repr: &str) -> Option<u16> {
    with_table(|t| t.ops.iter().position(|o| o.repr == repr).map(|i| i as u16))
}

#[derive(Clone, Debug)]
pub struct SymOps;
impl MakeOperators<Sym> for SymOps {
    fn make<'a>() -> Vec<Operator<'a, Sym>> {
        with_table(|t| {
            t.ops
                .iter()
                .enumerate()
                .map(|(k, o)| {
                    if o.konst {
                        Operator::make_constant(o.repr, sym::mk(sym::Node::Konst(k as u16)))
                    } else {
                        match (o.bin, o.unary) {
                            (Some((prio, c)), false) => Operator::make_bin(
                                o.repr,
                                BinOp { apply: BIN_FNS[k], prio, is_commutative: c },
                            ),
                            (Some((prio, c)), true) => Operator::make_bin_unary(
                                o.repr,
                                BinOp { apply: BIN_FNS[k], prio, is_commutative: c },
                                UN_FNS[k],
                            ),
                            (None, true) => Operator::make_unary(o.repr, UN_FNS[k]),
                            (None, false) => panic!("operator without capability"),
                        }
                    }
                })
                .collect()
        })
    }
}

pub enum Interp {
    /// AC function number n (n-th honoured flagged operator of the table)
    Ac(usize),
    Builtin(&'static str),
    Uf(String),
    /// SMT term with {a} and {b} placeholders (piecewise operators of the value table)
    Template(&'static str),
}

const AC_BUILTINS: [&str; 5] = ["bvadd", "bvmul", "bvxor", "bvor", "bvand"];

fn san(s: &str) -> String {
    s.chars()
        .map(|c| if c.is_ascii_alphanumeric() { c.to_string() } else { format!("_{:x}_", c as u32) })
        .collect()
}

pub fn interp_bin(k: u16, th: Theory) -> Interp {
    with_table(|t| {
        let o = &t.ops[k as usize];
        match th {
            Theory::Ufbv => {
                let (_, comm) = o.bin.expect("binary application of non-binary operator");
                if comm && !t.not_really_ac.contains(&o.repr) {
                    // n-th honoured flagged operator gets the n-th AC builtin
                    let n = t.ops[..k as usize]
                        .iter()
                        .filter(|p| matches!(p.bin, Some((_, true))) && !t.not_really_ac.contains(&p.repr))
                        .count();
                    if n < AC_BUILTINS.len() {
                        Interp::Builtin(AC_BUILTINS[n])
                    } else {
                        Interp::Ac(n)
                    }
                } else {
                    Interp::Uf(format!("ub_{}", san(o.repr)))
                }
            }
            Theory::Nra => match o.repr {
                "+" => Interp::Builtin("+"),
                "-" => Interp::Builtin("-"),
                "*" => Interp::Builtin("*"),
                "/" => Interp::Builtin("/"),
                "^" => Interp::Uf("pow".to_string()),
                // value table: `a if c` is a when c is true and none otherwise; `r else b` is b when r is none
                "if" => Interp::Template("(ite (not (= {b} 0.0)) {a} val_none)"),
                "else" => Interp::Template("(ite (= {a} val_none) {b} {a})"),
                "<" => Interp::Template("(ite (< {a} {b}) 1.0 0.0)"),
                "<=" => Interp::Template("(ite (<= {a} {b}) 1.0 0.0)"),
                ">" => Interp::Template("(ite (> {a} {b}) 1.0 0.0)"),
                ">=" => Interp::Template("(ite (>= {a} {b}) 1.0 0.0)"),
                "==" => Interp::Template("(ite (= {a} {b}) 1.0 0.0)"),
                "!=" => Interp::Template("(ite (= {a} {b}) 0.0 1.0)"),
                r => Interp::Uf(format!("ub_{}", san(r))),
            },
        }
    })
}

pub fn interp_un(k: u16, th: Theory) -> Interp {
    with_table(|t| {
        let o = &t.ops[k as usize];
        match th {
            Theory::Ufbv => Interp::Uf(format!("uu_{}", san(o.repr))),
            Theory::Nra => match o.repr {
                "+" => Interp::Builtin("id"),
                "-" => Interp::Builtin("-"),
                r => Interp::Uf(format!("uu_{}", san(r))),
            },
        }
    })
}

pub fn op_name(k: u16) -> String {
    repr_of(k)
}
