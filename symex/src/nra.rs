//! Real-arithmetic interpretation: domain side conditions ("interior of the domain") and
//! ground-instantiated laws for the uninterpreted elementary functions, so that queries stay
//! quantifier-free (QF_UFNRA).
use crate::sym::{self, Id, Node};
use std::collections::BTreeMap;

pub fn unary_side(f: &str, a: Id, i: Id, domain: &mut Vec<String>, lemmas: &mut Vec<String>) {
    match f {
        "uu_sqrt" => {
            domain.push(format!("(> n{a} 0.0)"));
            lemmas.push(format!("(=> (>= n{a} 0.0) (and (= (* n{i} n{i}) n{a}) (>= n{i} 0.0)))"));
        }
        "uu_ln" | "uu_log" | "uu_log2" | "uu_log10" => {
            domain.push(format!("(> n{a} 0.0)"));
            lemmas.push(format!("(=> (= n{a} 1.0) (= n{i} 0.0))"));
            // ln is strictly monotone: ln(c) != 0 for c != 1 (needed for 1/(x*ln(2)))
            lemmas.push(format!("(=> (> n{a} 1.0) (> n{i} 0.0))"));
            lemmas.push(format!("(=> (and (> n{a} 0.0) (< n{a} 1.0)) (< n{i} 0.0))"));
        }
        "uu_exp" => lemmas.push(format!("(> n{i} 0.0)")),
        "uu_tan" => {
            // interior of the domain of tan: cos != 0
            domain.push(format!("(not (= (uu_cos n{a}) 0.0))"));
        }
        "uu_asin" | "uu_acos" | "uu_atanh" => {
            domain.push(format!("(and (< n{a} 1.0) (> n{a} (- 1.0)))"));
        }
        "uu_acosh" => domain.push(format!("(> n{a} 1.0)")),
        "uu_cosh" => lemmas.push(format!("(>= n{i} 1.0)")),
        _ => {}
    }
}

pub fn binary_side(
    f: &str,
    a: Id,
    b: Id,
    i: Id,
    domain: &mut Vec<String>,
    lemmas: &mut Vec<String>,
    decl_ufs: &mut BTreeMap<String, usize>,
) {
    if f != "pow" {
        return;
    }
    let _ = decl_ufs;
    match sym::node(b) {
        Node::Rat(n, 1) if n.abs() <= 6 => {
            // exact definition for small integer exponents
            if n == 0 {
                // 0^0 excluded by the property ("no power has base zero with a non-positive exponent")
                domain.push(format!("(not (= n{a} 0.0))"));
                lemmas.push(format!("(= n{i} 1.0)"));
            } else if n > 0 {
                let prod = if n == 1 { format!("n{a}") } else { format!("(* {})", vec![format!("n{a}"); n as usize].join(" ")) };
                lemmas.push(format!("(= n{i} {prod})"));
            } else {
                domain.push(format!("(not (= n{a} 0.0))"));
                let m = -n;
                let prod = if m == 1 { format!("n{a}") } else { format!("(* {})", vec![format!("n{a}"); m as usize].join(" ")) };
                lemmas.push(format!("(=> (not (= n{a} 0.0)) (= n{i} (/ 1.0 {prod})))"));
            }
        }
        _ => {
            // general exponent: base must be positive (interior of the domain)
            domain.push(format!("(> n{a} 0.0)"));
            lemmas.push(format!("(=> (> n{a} 0.0) (> n{i} 0.0))"));
            // pow(a, b) * a = pow(a, b + 1), pow(a,b) = pow(a, b-1) * a
            lemmas.push(format!("(=> (> n{a} 0.0) (= (* n{i} n{a}) (pow n{a} (+ n{b} 1.0))))"));
            lemmas.push(format!("(=> (> n{a} 0.0) (= n{i} (* (pow n{a} (- n{b} 1.0)) n{a})))"));
            lemmas.push(format!("(=> (= n{b} 0.0) (= n{i} 1.0))"));
            lemmas.push(format!("(=> (= n{b} 1.0) (= n{i} n{a}))"));
            lemmas.push(format!("(=> (= n{b} 2.0) (= n{i} (* n{a} n{a})))"));
        }
    }
}
