//! Per-property drivers of engine S.
use crate::families::{self, GenCfg, Program};
use crate::smt::Theory;
use crate::sweep::{self, Finding, Stats, SweepCfg, SweepOut};
use crate::table::Table;
use crate::tree::{render, Style, Tree};
use crate::Args;
use serde_json::{json, Value};

pub fn write_out(args: &Args, v: &Value) {
    let out = args.get("out", "");
    let s = serde_json::to_string_pretty(v).unwrap();
    if out.is_empty() {
        println!("{s}");
    } else {
        std::fs::write(&out, s).unwrap_or_else(|e| panic!("cannot write {out}: {e}"));
    }
}

pub fn gen_cfg(quick: bool, seed: u64, call_forms: bool) -> GenCfg {
    if quick {
        GenCfg {
            exh_leaves: 3,
            sampled_leaves: vec![(4, 4)],
            dec_leaves: 3,
            dec_stride: 6,
            style_leaves: 3,
            style_stride: 3,
            call_forms,
            seed,
        }
    } else {
        GenCfg {
            exh_leaves: 4,
            sampled_leaves: vec![(5, 100)],
            dec_leaves: 3,
            dec_stride: 1,
            style_leaves: 3,
            style_stride: 1,
            call_forms,
            seed,
        }
    }
}

pub struct Part {
    pub name: &'static str,
    pub out: SweepOut,
    pub bounds: Value,
}

pub fn mk_sweep<'a>(args: &Args, tables: Vec<Table>, gen: &'a (dyn Fn(usize, &Table) -> Vec<Program> + Sync), pipelines: Vec<&'static str>, batch: usize) -> SweepCfg<'a> {
    let quick = args.tier_quick();
    SweepCfg {
        tables,
        gen,
        pipelines,
        theory: Theory::Ufbv,
        batch,
        threads: args.threads(),
        timeout_ms: if quick { 10_000 } else { 60_000 },
        max_findings: args.get("max-findings", "25").parse().unwrap(),
        check_poison: true,
        acceptance_must_agree: false,
    }
}

/// tree programs over the generic 3-operator family
pub fn part_trees(args: &Args, pipelines: &[&'static str], alpha: bool) -> Part {
    let quick = args.tier_quick();
    let seed = args.seed();
    let tables: Vec<Table> = families::generic_tables(quick, alpha);
    let cfg = gen_cfg(quick, seed, alpha);
    let gen = move |ti: usize, _t: &Table| -> Vec<Program> { families::tree_programs(&cfg, ti as u64) };
    let sc = mk_sweep(args, tables, &gen, pipelines.to_vec(), 64);
    let ntab = sc.tables.len();
    let out = sweep::sweep(&sc);
    let bounds = json!({
        "tables": ntab,
        "table_family": format!("3 binary-capable operators ({}, %, - where - is also a unary sign) x all 13 weak orders of their priorities x {} magnitude map(s) out of [0,50,98,99],[0,1,2,3],[96,97,98,99] x all 8 subsets of commutativity flags; unary-only sin, cos; constant PI", if alpha {"min"} else {"&"}, if quick {1} else {3}),
        "trees": if quick { "all trees with <=3 operands (leaves x, y, literal); 4 operands: every 4th; single-position unary chains {sin, -, sin -, - sin, sin cos, - -}: every 6th; rendering variants (blanks, braces, redundant parentheses at every position, u(x) form, call form): every 3rd; stride offsets depend on VERIF_SEED" } else { "all trees with <=4 operands; 5 operands: every 100th; all single-position unary chains and two-position decorations on <=3 operands; every rendering variant on <=3 operands" },
        "pipelines": pipelines,
        "value_sort": "(_ BitVec 16); flagged operators interpreted by bvadd/bvmul/bvxor, all others uninterpreted",
    });
    Part { name: if alpha { "trees-alpha" } else { "trees" }, out, bounds }
}

/// exhaustive unparenthesised chains over the 3-operator family (longer) and the 4-operator family
pub fn part_chains_exh(args: &Args, pipelines: &[&'static str], four: bool) -> Part {
    let quick = args.tier_quick();
    let seed = args.seed();
    let (tables, max_leaves, stride_last, bins): (Vec<Table>, usize, usize, Vec<u16>) = if four {
        (families::generic_tables4(if quick { 3 } else { 1 }, seed as usize, false), if quick { 5 } else { 6 }, if quick { 1 } else { 4 }, vec![families::X, families::Y, families::Z, families::W])
    } else {
        (families::generic_tables(quick, false), if quick { 6 } else { 7 }, if quick { 2 } else { 2 }, vec![families::X, families::Y, families::Z])
    };
    let bins2 = bins.clone();
    let gen = move |ti: usize, _t: &Table| -> Vec<Program> { families::chain_programs(max_leaves, &bins2, stride_last, seed.wrapping_add(ti as u64)) };
    let sc = mk_sweep(args, tables, &gen, pipelines.to_vec(), 64);
    let ntab = sc.tables.len();
    let out = sweep::sweep(&sc);
    let bounds = json!({
        "tables": ntab,
        "table_family": if four { "4 binary-capable operators (&, %, -, |) x all 75 weak orders of priorities x all 16 flag subsets (quick: every 3rd table, offset VERIF_SEED), magnitude maps rotating" } else { "the 3-operator family" },
        "chains": format!("every unparenthesised chain with 2..={max_leaves} operands: every operator tuple x every variable/literal pattern (longest length: every {stride_last}th); plus every 5th chain inside a unary group `sin(chain) op w` / `w op -(chain)`, every 7th with a unary chain on one leaf"),
        "reference": "precedence climbing: descending priority, left-to-right among equals (the documented rule)",
        "pipelines": pipelines,
    });
    Part { name: if four { "chains-4op" } else { "chains-3op" }, out, bounds }
}

/// long unparenthesised chains (tracker hand-over at 64 operands; application orders)
pub fn part_chains(args: &Args, pipelines: &[&'static str]) -> Part {
    let quick = args.tier_quick();
    let lens: Vec<usize> = if quick { vec![9, 33, 63, 64, 65, 66, 129] } else { vec![9, 17, 31, 32, 33, 62, 63, 64, 65, 66, 67, 127, 128, 129, 130, 191, 192, 193, 194, 257] };
    let mut tables = vec![];
    for ranks in [[0usize, 0, 0], [0, 1, 2], [2, 1, 0], [1, 0, 1], [0, 0, 1], [1, 1, 0]] {
        for flags in [0u8, 7, 1, 2, 5] {
            tables.push(families::generic_table(&ranks, 0, flags, false));
        }
    }
    let seed = args.seed();
    let gen = move |ti: usize, _t: &Table| -> Vec<Program> {
        let mut out = vec![];
        for &n in &lens {
            for pattern in 0..7 {
                let t = families::long_chain(n, pattern);
                let text = render(&t, &Style::default());
                out.push(Program { tree: Some(t), text, class: "long-chain" });
            }
        }
        // islands around the word boundaries of the consumed-operand bookkeeping: one operator everywhere, a second one
        // at a subset of the positions 61..=66, 125..=130, 189..=194 (all subsets up to the tier's size, spread over the tables)
        let positions: Vec<usize> = (61..=66).chain(125..=130).chain(189..=194).collect();
        let max_k = if quick { 3 } else { 4 };
        let mut subsets: Vec<Vec<usize>> = vec![vec![]];
        for k in 1..=max_k {
            fn comb(pos: &[usize], k: usize, start: usize, cur: &mut Vec<usize>, out: &mut Vec<Vec<usize>>) {
                if cur.len() == k {
                    out.push(cur.clone());
                    return;
                }
                for i in start..pos.len() {
                    cur.push(pos[i]);
                    comb(pos, k, i + 1, cur, out);
                    cur.pop();
                }
            }
            comb(&positions, k, 0, &mut vec![], &mut subsets);
        }
        let n_tables = 30;
        for (si, sub) in subsets.iter().enumerate() {
            if (si + seed as usize) % n_tables != ti % n_tables {
                continue;
            }
            let n = 200;
            let (base, island) = [(families::X, families::Y), (families::Y, families::X), (families::Z, families::X), (families::X, families::Z)][si % 4];
            let ops: Vec<u16> = (0..n - 1).map(|i| if sub.contains(&i) { island } else { base }).collect();
            let leaves: Vec<Tree> = (0..n).map(|i| if i % 9 == 4 { Tree::lit(families::LITS[i % 8]) } else { Tree::var(["x", "y", "z"][i % 3]) }).collect();
            let tree = families::chain_to_tree(&leaves, &ops);
            let text = families::render_chain(&leaves, &ops);
            out.push(Program { tree: Some(tree), text, class: "boundary-islands" });
        }
        out
    };
    let sc = mk_sweep(args, tables, &gen, pipelines.to_vec(), 4);
    let ntab = sc.tables.len();
    let out = sweep::sweep(&sc);
    let bounds = json!({
        "tables": ntab,
        "chains": "unparenthesised chains with 9..=257 operands (lengths around 32, 63-66, 127-130, 191-194), 7 operator/literal patterns, 6 priority patterns x 5 flag patterns",
        "boundary_islands": format!("200-operand chains of one operator with a second operator at every subset of size <= {} of the positions 61..=66, 125..=130, 189..=194 (word boundaries of the operand tracker), spread over the 30 tables", if quick { 3 } else { 4 }),
        "pipelines": pipelines,
    });
    Part { name: "long-chains", out, bounds }
}

/// seeded random larger trees (a labelled slice)
pub fn part_random(args: &Args, pipelines: &[&'static str]) -> Part {
    let quick = args.tier_quick();
    let seed = args.seed();
    let tables: Vec<Table> = families::generic_tables(true, false);
    let (sizes, count): (Vec<usize>, usize) = if quick { (vec![5, 6, 7], 12) } else { (vec![5, 6, 7, 8, 10, 12], 120) };
    let gen = move |ti: usize, _t: &Table| -> Vec<Program> {
        let mut out = vec![];
        for &n in &sizes {
            for t in families::random_trees(n, count, seed.wrapping_mul(1000).wrapping_add(ti as u64 * 17 + n as u64)) {
                out.push(Program { text: render(&t, &Style::default()), tree: Some(t.clone()), class: "random" });
                out.push(Program { text: render(&t, &Style { space: true, paren_at: Some(1), paren_depth: 2, ..Default::default() }), tree: Some(t), class: "random" });
            }
        }
        out
    };
    let sc = mk_sweep(args, tables, &gen, pipelines.to_vec(), 32);
    let ntab = sc.tables.len();
    let out = sweep::sweep(&sc);
    let bounds = json!({ "tables": ntab, "trees": format!("seeded random trees (VERIF_SEED={seed}) with 5..=12 operands and unary decorations: a slice, not exhaustive"), "pipelines": pipelines });
    Part { name: "random-slice", out, bounds }
}

pub fn finish(args: &Args, prop: &str, parts: Vec<Part>, extra_findings: Vec<Finding>, meta: Value) -> i32 {
    let mut total = Stats::default();
    let mut findings: Vec<Value> = vec![];
    let mut samples: Vec<Value> = vec![];
    let mut bounds = serde_json::Map::new();
    let mut wall = 0.0;
    for p in &parts {
        total.merge(&p.out.stats);
        wall += p.out.wall_s;
        for f in &p.out.findings {
            let mut j = f.to_json();
            j["part"] = json!(p.name);
            findings.push(j);
        }
        samples.extend(p.out.samples.iter().take(4).cloned());
        let mut b = p.bounds.clone();
        b["stats"] = p.out.stats.to_json();
        b["wall_s"] = json!(p.out.wall_s);
        bounds.insert(p.name.to_string(), b);
    }
    for f in &extra_findings {
        findings.push(f.to_json());
    }
    let v = json!({
        "engine": "S", "property": prop, "tier": args.get("tier", "quick"), "seed": args.seed(),
        "stats": total.to_json(), "parts": bounds, "findings": findings, "samples": samples, "wall_s": wall,
        "meta": meta,
    });
    write_out(args, &v);
    0
}

const FUNCS_PARSE: &[&str] = &[
    "parser::tokenize_and_analyze", "parser::check_parsed_token_preconditions", "parser::find_parsed_vars", "parser::is_operator_binary",
    "flat::detail::make_expression", "flat::detail::prioritized_indices_flat", "FlatEx::compile", "flat::detail::eval_flatex_cloning",
    "expression::eval_binary", "UnaryOp::apply", "number_tracker (usize and [usize])",
];
const FUNCS_DEEP: &[&str] = &[
    "deep::detail::make_expression", "deep::detail::process_unary", "DeepEx::new", "DeepEx::compile", "deep::detail::lift_nodes",
    "deep::prioritized_indices", "DeepEx::eval_relaxed", "flat::detail::flatex_to_deepex", "flat::flatten_vecs", "FlatEx::from_deepex", "deep::detail::unparse_raw",
];

pub fn dispatch(args: &Args) -> i32 {
    match args.cmd.as_str() {
        "survey" => {
            let pls: Vec<&'static str> = match args.get("pipelines", "").as_str() {
                "" => crate::pipelines::STRUCTURAL.to_vec(),
                s => s
                    .split(',')
                    .map(|p| *crate::pipelines::STRUCTURAL.iter().find(|q| **q == p).unwrap_or_else(|| panic!("unknown pipeline {p}")))
                    .collect(),
            };
            let alpha = args.get("alpha", "0") == "1";
            let p = part_trees(args, &pls, alpha);
            finish(args, "survey", vec![p], vec![], json!({}))
        }
        "C01" => {
            let pls = ["flat", "flat_wo"];
            let mut parts = vec![part_trees(args, &pls, false), part_trees(args, &pls, true), part_chains_exh(args, &pls, false), part_chains_exh(args, &pls, true), part_chains(args, &pls), part_random(args, &pls)];
            if !args.tier_quick() {
                parts.push(crate::extra::part_default_table(args, &pls));
            }
            finish(args, "C01", parts, vec![], json!({
                "functions": FUNCS_PARSE,
                "assumptions": ["parametricity: the generic library can touch T only through Clone, Default, FromStr, Debug and the table's function pointers, so T = Sym stands for every data type",
                    "a regrouping visible in the free AC theory is also visible under bvadd/bvmul/bvxor (both sides contain the same operator occurrences)",
                    "z3 4.8.12 decides QF_UFBV correctly (every sat answer is replayed concretely at T = u16 on the real code)"],
                "outside": ["priorities other than the enumerated weak orders x magnitude maps", "trees beyond the tier bound", "tokenisation of exotic spellings (C13)", "the f64 function bodies themselves (C19)"],
            }))
        }
        "C02" => {
            let pls = ["flat", "flat_wo", "flat_recompile", "flat_wo_compile2", "deep"];
            let mut parts = vec![part_trees(args, &pls, false), part_chains_exh(args, &pls, false), part_chains_exh(args, &pls, true), part_chains(args, &["flat", "flat_wo", "deep"]), part_random(args, &pls)];
            parts.push(crate::extra::part_raw_differential(args, "C02"));
            finish(args, "C02", parts, vec![], json!({
                "functions": ([FUNCS_PARSE, FUNCS_DEEP].concat()),
                "assumptions": ["literals are free constants: a literal combined with a neighbour it would not meet in ordinary evaluation (modulo AC of flagged operators) makes the terms differ for some value",
                    "parametricity in T", "bvadd/bvmul/bvxor stand for any AC interpretation of flagged operators"],
                "outside": ["operator tables outside the enumerated family", "trees beyond the tier bound"],
            }))
        }
        "C03" => {
            let pls = ["flat", "deep", "flat>deep", "flat>deep>flat", "deep>flat", "deep>flat>deep", "flat>deep>flat>deep", "deep>flat>deep>flat", "flat_wo>deep", "flat_wo>deep>flat", "deep_relaxed"];
            let mut parts = vec![part_trees(args, &pls, false), part_trees(args, &["flat", "deep", "flat>deep>flat", "deep>flat"], true), part_chains(args, &["flat", "deep", "flat>deep", "deep>flat", "flat>deep>flat"]), part_random(args, &pls),
                part_chains_exh(args, &["flat", "deep", "flat>deep", "deep>flat", "flat>deep>flat"], false), part_chains_exh(args, &["flat", "deep", "flat>deep", "deep>flat"], true)];
            parts.push(crate::extra::part_raw_differential(args, "C03"));
            let listing = crate::extra::listings_check(args);
            finish(args, "C03", parts, listing.0, json!({
                "functions": ([FUNCS_PARSE, FUNCS_DEEP, &["FlatEx::{unary,binary,operator}_reprs", "DeepEx::{unary,binary,operator}_reprs"][..]].concat()),
                "listings": listing.1,
                "assumptions": ["parametricity in T", "operator listings are concrete strings: that sub-check is path enumeration, not a solver verdict"],
                "outside": ["strings outside the raw token alphabet", "conversion histories longer than 4"],
            }))
        }
        "C08" => {
            let pls = ["flat", "flat_wo", "deep"];
            let parts = vec![part_trees(args, &pls, true), crate::extra::part_call_nesting(args, &pls), crate::extra::part_call_in_infix(args, &pls)];
            finish(args, "C08", parts, vec![], json!({
                "functions": ["parser::tokenize_and_analyze (comma rewrite)", "parser::find_op_of_comma", "flat::detail::make_expression", "deep::detail::make_expression"],
                "assumptions": ["parametricity in T"],
                "outside": ["call nesting deeper than the tier bound", "operator names beyond `min`/`f`/`g`"],
            }))
        }
        "C12" => {
            let pls = ["reparse_deep", "reparse_flat_from_deep"];
            let mut parts = vec![part_trees(args, &pls, false), part_trees(args, &pls, true), part_random(args, &pls), part_chains_exh(args, &pls, false)];
            parts.push(crate::extra::part_unparse_identity(args));
            parts.push(crate::extra::part_serde(args));
            parts.push(crate::calc::part_derived_roundtrip(args));
            parts.push(crate::calc::part_negative_literals(args));
            finish(args, "C12", parts, vec![], json!({
                "functions": ["deep::detail::unparse_raw", "FlatEx::unparse", "DeepEx::unparse", "FlatEx::from_deepex", "serde::{Serialize,Deserialize} for FlatEx"],
                "assumptions": ["constants folded at parse time print in a reserved pattern that conforms to NumberMatcher (the property quantifies over literals whose Debug form is a literal of the matcher); in the exact-rational parts a negative constant prints with a leading `-` like a negative float"],
                "outside": ["f64's exponent/inf/NaN Debug forms", "histories through calculus operations (covered in C10/C11/C05 evidence)"],
            }))
        }
        "C15" => {
            let pls = ["flat_vec", "flat_iter", "flat_wo_vec", "flat_wo_iter"];
            let mut parts = vec![part_trees(args, &pls, false), part_random(args, &pls), part_chains(args, &["flat_vec", "flat_wo_iter"]), part_chains_exh(args, &["flat_vec", "flat_wo_iter"], false)];
            parts.push(crate::extra::part_clone_counts(args));
            parts.push(crate::extra::part_consuming_arity(args));
            parts.push(crate::calc::part_derived_consuming(args));
            finish(args, "C15", parts, vec![], json!({
                "functions": ["flat::detail::eval_flatex_consuming_vars", "FlatEx::eval_vec", "FlatEx::eval_iter", "flat::detail::eval_numbers"],
                "assumptions": ["the consuming result is compared with the reference tree, which C01 ties to the borrowing evaluation"],
                "outside": ["data types whose Clone is observable in other ways than the clone counter"],
            }))
        }
        "C04" => crate::extra::c04(args),
        "C06" => crate::extra::c06(args),
        "C07" => crate::extra::c07(args),
        "C11" => crate::extra::c11(args),
        "C05" => crate::calc::c05(args),
        "C09" => crate::calc::c09(args),
        "C10" => crate::calc::c10(args),
        "C18" => crate::calc::c18(args),
        "C16" => {
            let pls = ["flat", "flat_wo", "deep", "flat>deep", "deep>flat"];
            let parts = vec![crate::extra::part_val_table(args, &pls)];
            finish(args, "C16", parts, vec![], json!({
                "functions": ["value::ValOpsFactory::make (priorities and commutativity flags)", "flat::detail::make_expression", "flat::detail::prioritized_indices_flat", "FlatEx::compile", "DeepEx::compile"],
                "assumptions": ["flags of + * | & XOR are honoured as AC; the flags of == != cross dot && || are NOT (those operators are not associative), so any regrouping through them is a violation"],
                "outside": ["the operator functions themselves (engine K cells)"],
            }))
        }
        "C19" => {
            // structure of expressions over the real default table (infix and call form, constants, unary names):
            // which operator of the table is applied to which operands, in which order
            let pls = ["flat", "flat_wo", "deep"];
            let parts = vec![crate::extra::part_default_table(args, &pls)];
            finish(args, "C19", parts, vec![], json!({
                "functions": ["FloatOpsFactory::make (repr, prio, is_commutative, capabilities of every entry)", "parser::tokenize_and_analyze", "flat::detail::make_expression", "deep::detail::make_expression"],
                "assumptions": ["the function bodies are decided by engines M and K; this part decides that a parsed expression (infix and call form) applies the table entry of that name to the operands in the documented order"],
                "outside": ["trees beyond the bound"],
            }))
        }
        "C13" => crate::extra::c13(args),
        "C17" => crate::extra::c17(args),
        "C14" => {
            let pls = ["flat", "flat_wo", "deep", "flat>deep"];
            let parts = vec![part_chains(args, &pls), part_chains_exh(args, &["flat", "deep"], false)];
            finish(args, "C14", parts, vec![], json!({
                "functions": ["flat::detail::eval_numbers (tracker selection by size)", "DeepEx::eval_relaxed (slice tracker)", "flat::detail::flatex_to_deepex (tracker replay)", "expression::eval_binary", "number_tracker"],
                "assumptions": ["parametricity in T"],
                "outside": ["chains longer than 257 operands"],
            }))
        }
        "replay" => crate::extra::replay(args),
        "floatop" => crate::floatop::run(args),
        "deepnest" => crate::extra::deepnest(args),
        "valtable" => {
            use exmex::MakeOperators;
            let ops = exmex::ValOpsFactory::<i32, f64>::make();
            let v: Vec<Value> = ops.iter().enumerate().map(|(i, o)| json!({"idx": i, "repr": o.repr(), "bin": o.has_bin(), "unary": o.has_unary(), "konst": o.constant().is_some()})).collect();
            let fo = exmex::FloatOpsFactory::<f64>::make();
            let f: Vec<Value> = fo.iter().enumerate().map(|(i, o)| json!({"idx": i, "repr": o.repr(), "bin": o.has_bin(), "unary": o.has_unary(), "konst": o.constant().is_some()})).collect();
            write_out(args, &json!({"val": v, "float": f}));
            0
        }
        other => {
            eprintln!("unknown command {other}");
            64
        }
    }
}

#[allow(dead_code)]
pub fn tree_text(t: &Tree) -> String {
    render(t, &Style::default())
}
