//! Engine K: Kani proof harnesses over the real exmex kernels (reached through the `verif_hooks`
//! feature) and operator cells. Every harness: symbolic inputs, unwinding assertions on,
//! `alloc::fmt::format` stubbed (messages are not the subject), a `kani::cover!` witness next to
//! the last assertion (the driver requires it SATISFIED).
#![allow(unused)]
#![recursion_limit = "512"]

pub mod model;

#[cfg(kani)]
pub mod stubs {
    pub fn fmt_stub(_args: std::fmt::Arguments) -> String {
        String::new()
    }
}

#[cfg(kani)]
mod kernels;

#[cfg(kani)]
mod cells;

#[cfg(kani)]
mod floats;
