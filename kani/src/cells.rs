//! Operator cells of the value type `Val<i32, f64>` (C16 typing/error rules, C17 totality).
//! One harness per operator and role; operand KINDS are chosen symbolically inside the harness,
//! payloads are fully symbolic. The operator is looked up by an index computed natively from the
//! real table before every run (`cells_idx.rs`), and `repr()` is asserted in the harness, so the
//! name -> function association that is verified is the table's own.
use exmex::{ExError, MakeOperators, Val, ValOpsFactory};
use smallvec::smallvec;

pub type V = Val<i32, f64>;

include!("cells_idx.rs");

fn feq(a: f64, b: f64) -> bool {
    a.to_bits() == b.to_bits() || (a.is_nan() && b.is_nan())
}

/// structural equality with bit-equal floats
fn same(a: &V, b: &V) -> bool {
    match (a, b) {
        (Val::Int(x), Val::Int(y)) => x == y,
        (Val::Float(x), Val::Float(y)) => feq(*x, *y),
        (Val::Bool(x), Val::Bool(y)) => x == y,
        (Val::None, Val::None) => true,
        (Val::Error(_), Val::Error(_)) => true,
        (Val::Array(x), Val::Array(y)) => {
            if x.len() != y.len() {
                return false;
            }
            let mut i = 0;
            while i < x.len() {
                if !feq(x[i], y[i]) {
                    return false;
                }
                i += 1;
            }
            true
        }
        _ => false,
    }
}

pub enum Spec {
    Exact(V),
    AnyFloat,
    Error,
    /// the documentation does not determine the result; only totality (C17) is checked
    Unspecified,
}

fn conforms(r: &V, s: &Spec) -> bool {
    match s {
        Spec::Exact(v) => same(r, v),
        Spec::AnyFloat => matches!(r, Val::Float(_)),
        Spec::Error => matches!(r, Val::Error(_)),
        Spec::Unspecified => true,
    }
}

/// Integer payload for the multiplicative kernels (* / % ^): bit-blasted 32-bit multipliers and dividers against
/// an independent checked_* oracle do not finish in CBMC, so the payload ranges over the boundary values and a
/// small interval (stated bound): MIN, MIN+1, MAX, MAX-1, 2^16, -2^16, 46341 (sqrt overflow boundary) and [-9, 9].
fn special_int() -> i32 {
    let c: u8 = kani::any();
    match c {
        0 => i32::MIN,
        1 => i32::MIN + 1,
        2 => i32::MAX,
        3 => i32::MAX - 1,
        4 => 65536,
        5 => -65536,
        6 => 46341,
        7 => 46340,
        _ => {
            let s: i8 = kani::any();
            kani::assume(s >= -9 && s <= 9);
            s as i32
        }
    }
}

/// exponents of integer powers: every value in [-2, 66] (covers 2^31, 2^32, 2^63, 2^64 and negative exponents)
fn small_exponent() -> i32 {
    let e: i8 = kani::any();
    kani::assume(e >= -2 && e <= 66);
    e as i32
}

/// scalar kinds: 0 Int, 1 Float, 2 Bool, 3 None, 4 Error; 5 = Array of one element; 6 = Int from the restricted domain; 7 = small exponent
fn mk(kind: u8) -> V {
    match kind {
        6 => Val::Int(special_int()),
        7 => Val::Int(small_exponent()),
        0 => Val::Int(kani::any()),
        1 => Val::Float(kani::any()),
        2 => Val::Bool(kani::any()),
        3 => Val::None,
        4 => Val::Error(ExError::new("e")),
        _ => Val::Array(smallvec![kani::any::<f64>()]),
    }
}

fn dup(v: &V) -> V {
    match v {
        Val::Int(x) => Val::Int(*x),
        Val::Float(x) => Val::Float(*x),
        Val::Bool(x) => Val::Bool(*x),
        Val::None => Val::None,
        Val::Error(_) => Val::Error(ExError::new("e")),
        Val::Array(a) => {
            if a.len() == 1 {
                Val::Array(smallvec![a[0]])
            } else if a.len() == 2 {
                Val::Array(smallvec![a[0], a[1]])
            } else if a.len() == 3 {
                Val::Array(smallvec![a[0], a[1], a[2]])
            } else if a.len() == 4 {
                Val::Array(smallvec![a[0], a[1], a[2], a[3]])
            } else {
                Val::Array(smallvec![])
            }
        }
    }
}

#[derive(Clone, Copy, PartialEq)]
pub enum B {
    Pow, Add, Sub, Cross, Dot, Mul, Div, Atan2, Rem, BitOr, BitAnd, Xor, Shr, Shl, And, Or, Eq, Ge, Gt, Le, Lt, Ne, If, Else, Min, Max, Comp,
}

/// a single cell of a binary operator (used for the integer power, whose full numeric group is thorough-tier)
pub fn check_bin_single(idx: usize, name: &str, op: B, ka: u8, kb: u8) {
    let ops = ValOpsFactory::<i32, f64>::make();
    assert!(ops[idx].repr() == name);
    let f = ops[idx].bin().unwrap().apply;
    cell_bin(f, op, ka, kb);
    kani::cover!(true, "cell executed");
    core::mem::forget(ops);
}

fn is_err(v: &V) -> bool {
    matches!(v, Val::Error(_))
}

fn num_pair(a: &V, b: &V) -> Option<(f64, f64, bool)> {
    // (x, y, both_int)
    match (a, b) {
        (Val::Int(x), Val::Int(y)) => Some((*x as f64, *y as f64, true)),
        (Val::Float(x), Val::Float(y)) => Some((*x, *y, false)),
        (Val::Float(x), Val::Int(y)) => Some((*x, *y as f64, false)),
        (Val::Int(x), Val::Float(y)) => Some((*x as f64, *y, false)),
        _ => None,
    }
}

fn int_or_err(o: Option<i32>) -> Spec {
    match o {
        Some(v) => Spec::Exact(Val::Int(v)),
        None => Spec::Error,
    }
}

/// The documented rule for binary operator `op` on scalar operands (transcribed from the rustdoc of
/// `Val` / `ValOpsFactory` and the statement of C16).
pub fn spec_bin(op: B, a: &V, b: &V) -> Spec {
    use B::*;
    match op {
        Add | Sub | Mul | Min | Max => {
            if let (Val::Int(x), Val::Int(y)) = (a, b) {
                return match op {
                    Add => int_or_err(x.checked_add(*y)),
                    Sub => int_or_err(x.checked_sub(*y)),
                    Mul => int_or_err(x.checked_mul(*y)),
                    Min => Spec::Exact(Val::Int(if x < y { *x } else { *y })),
                    _ => Spec::Exact(Val::Int(if x > y { *x } else { *y })),
                };
            }
            if let Some((x, y, _)) = num_pair(a, b) {
                return Spec::Exact(Val::Float(match op {
                    Add => x + y,
                    Sub => x - y,
                    Mul => x * y,
                    Min => x.min(y),
                    _ => x.max(y),
                }));
            }
            Spec::Error
        }
        Div => {
            if let Val::Int(0) = b {
                return Spec::Error;
            }
            if let (Val::Int(x), Val::Int(y)) = (a, b) {
                return int_or_err(x.checked_div(*y));
            }
            if num_pair(a, b).is_some() {
                return Spec::AnyFloat;
            }
            Spec::Error
        }
        Rem => match (a, b) {
            (Val::Int(x), Val::Int(y)) => int_or_err(x.checked_rem(*y)),
            _ => Spec::Error,
        },
        BitOr | BitAnd | Xor => match (a, b) {
            (Val::Int(x), Val::Int(y)) => Spec::Exact(Val::Int(match op {
                BitOr => x | y,
                BitAnd => x & y,
                _ => x ^ y,
            })),
            _ => Spec::Error,
        },
        Shr | Shl => match (a, b) {
            (Val::Int(x), Val::Int(y)) => {
                if *y >= 0 && *y < 32 {
                    Spec::Exact(Val::Int(if op == Shr { x >> y } else { x << y }))
                } else {
                    Spec::Error
                }
            }
            _ => Spec::Error,
        },
        Pow => match (a, b) {
            (Val::Int(x), Val::Int(y)) => {
                if *y < 0 {
                    Spec::Error
                } else {
                    int_or_err(x.checked_pow(*y as u32))
                }
            }
            (Val::Float(_), Val::Float(_)) | (Val::Float(_), Val::Int(_)) => Spec::AnyFloat,
            _ => Spec::Error,
        },
        Eq | Ne | Lt | Le | Gt | Ge => {
            let r = match (a, b) {
                (Val::Bool(x), Val::Bool(y)) => match op {
                    Eq => x == y,
                    Ne => x != y,
                    _ => false,
                },
                _ => match num_pair(a, b) {
                    Some((x, y, both_int)) => {
                        if both_int {
                            // exact integer comparison
                            let (Val::Int(p), Val::Int(q)) = (a, b) else { unreachable!() };
                            match op {
                                Eq => p == q,
                                Ne => p != q,
                                Lt => p < q,
                                Le => p <= q,
                                Gt => p > q,
                                _ => p >= q,
                            }
                        } else {
                            match op {
                                Eq => x == y,
                                Ne => x != y,
                                Lt => x < y,
                                Le => x <= y,
                                Gt => x > y,
                                _ => x >= y,
                            }
                        }
                    }
                    // mismatched kinds, none and errors: equality and ordering are false
                    None => {
                        if op == Ne {
                            return Spec::Unspecified;
                        }
                        false
                    }
                },
            };
            Spec::Exact(Val::Bool(r))
        }
        If => {
            let c = match b {
                Val::Bool(t) => *t,
                Val::Int(n) => *n != 0,
                Val::Float(x) => *x != 0.0,
                _ => return Spec::Error,
            };
            if c {
                Spec::Exact(dup(a))
            } else {
                Spec::Exact(Val::None)
            }
        }
        Else => match a {
            Val::None => Spec::Exact(dup(b)),
            _ => Spec::Exact(dup(a)),
        },
        And | Or => match (a, b) {
            (Val::Bool(x), Val::Bool(y)) => Spec::Exact(Val::Bool(if op == And { *x && *y } else { *x || *y })),
            _ => Spec::Unspecified,
        },
        Atan2 => {
            let numeric = |v: &V| matches!(v, Val::Int(_) | Val::Float(_) | Val::Bool(_));
            let fl = |v: &V| match v {
                Val::Int(x) => *x as f64,
                Val::Float(x) => *x,
                Val::Bool(x) => if *x { 1.0 } else { 0.0 },
                _ => 0.0,
            };
            if numeric(a) && numeric(b) {
                // f64::atan2 is a tagged, argument-order-sensitive stub in the harness (see U::FloatPrim)
                Spec::Exact(Val::Float(fl(a).atan2(fl(b))))
            } else {
                Spec::Error
            }
        }
        // vector operators on scalar operands
        Dot | Cross | Comp => Spec::Error,
    }
}

/// error operands propagate in arithmetic, bitwise, power, vector (and atan2) operators
pub fn propagates_error(op: B) -> bool {
    use B::*;
    matches!(op, Add | Sub | Mul | Div | Min | Max | Rem | BitOr | BitAnd | Xor | Shr | Shl | Pow | Dot | Cross | Comp | Atan2)
}

fn cell_bin(f: fn(V, V) -> V, op: B, ka: u8, kb: u8) {
    let restricted = matches!(op, B::Mul | B::Div | B::Rem | B::Pow);
    let a = mk(if ka == 0 && restricted { 6 } else { ka });
    let b = mk(if kb == 0 && op == B::Pow { 7 } else if kb == 0 && restricted { 6 } else { kb });
    let r = f(dup(&a), dup(&b));
    if propagates_error(op) && (is_err(&a) || is_err(&b)) {
        assert!(is_err(&r), "error operand must give an error result");
    }
    let s = spec_bin(op, &a, &b);
    assert!(conforms(&r, &s), "result violates the documented typing/error rule");
    core::mem::forget((a, b, r, s));
}

/// The 25 ordered pairs of scalar operand kinds in four groups, each cell with concrete kinds and
/// symbolic payloads: 0 = numeric pairs, 1 = an error operand, 2 = bool/none with a number, 3 = the rest.
pub fn check_bin_scalar(idx: usize, name: &str, op: B, group: u8) {
    let ops = ValOpsFactory::<i32, f64>::make();
    assert!(ops[idx].repr() == name);
    let f = ops[idx].bin().unwrap().apply;
    run_bin_group(f, op, group);
    kani::cover!(true, "all cells of the group executed");
    core::mem::forget(ops);
}

/// Direct kernel: the private operator function of value.rs that the table entry names (the association
/// repr -> function identifier is read from the source of `ValOpsFactory::make` before every run; the function is
/// reached through `verif_hooks::val`), without building the operator table: an order of magnitude cheaper than a
/// table cell, so the quick tier can afford every operator. The table cells (thorough tier) cover the wiring.
pub fn check_bin_direct(f: fn(V, V) -> V, op: B, group: u8) {
    run_bin_group(f, op, group);
    kani::cover!(true, "all cells of the group executed");
}

pub fn check_un_direct(f: fn(V) -> V, op: U) {
    cell_un(f, op, 0);
    cell_un(f, op, 1);
    cell_un(f, op, 2);
    cell_un(f, op, 3);
    cell_un(f, op, 4);
    cell_un(f, op, 5);
    kani::cover!(true, "all 6 cells executed");
}

/// The six comparison operators of the table are closures over the value type's own `PartialEq` / `PartialOrd`
/// (`|a, b| Val::Bool(a < b)`); the same closures over the real trait implementations are checked here without the
/// table, for every operand-kind pair of the group.
fn cmp_fn(op: B) -> fn(V, V) -> V {
    match op {
        B::Eq => |a, b| Val::Bool(a == b),
        B::Ne => |a, b| Val::Bool(a != b),
        B::Lt => |a, b| Val::Bool(a < b),
        B::Le => |a, b| Val::Bool(a <= b),
        B::Gt => |a, b| Val::Bool(a > b),
        _ => |a, b| Val::Bool(a >= b),
    }
}

pub fn check_cmp_direct(group: u8) {
    run_bin_group(cmp_fn(B::Eq), B::Eq, group);
    run_bin_group(cmp_fn(B::Ne), B::Ne, group);
    run_bin_group(cmp_fn(B::Lt), B::Lt, group);
    run_bin_group(cmp_fn(B::Le), B::Le, group);
    run_bin_group(cmp_fn(B::Gt), B::Gt, group);
    run_bin_group(cmp_fn(B::Ge), B::Ge, group);
    kani::cover!(true, "all six comparisons on all cells of the group executed");
}

fn run_bin_group(f: fn(V, V) -> V, op: B, group: u8) {
    match group {
        0 => {
            cell_bin(f, op, 0, 0);
            cell_bin(f, op, 0, 1);
            cell_bin(f, op, 1, 0);
            cell_bin(f, op, 1, 1);
        }
        1 => {
            cell_bin(f, op, 0, 4);
            cell_bin(f, op, 4, 0);
            cell_bin(f, op, 1, 4);
            cell_bin(f, op, 4, 1);
            cell_bin(f, op, 4, 4);
        }
        2 => {
            cell_bin(f, op, 0, 2);
            cell_bin(f, op, 2, 0);
            cell_bin(f, op, 1, 2);
            cell_bin(f, op, 2, 1);
            cell_bin(f, op, 0, 3);
            cell_bin(f, op, 3, 0);
            cell_bin(f, op, 1, 3);
            cell_bin(f, op, 3, 1);
        }
        _ => {
            cell_bin(f, op, 2, 2);
            cell_bin(f, op, 2, 3);
            cell_bin(f, op, 3, 2);
            cell_bin(f, op, 3, 3);
            cell_bin(f, op, 2, 4);
            cell_bin(f, op, 4, 2);
            cell_bin(f, op, 3, 4);
            cell_bin(f, op, 4, 3);
        }
    }
}

#[derive(Clone, Copy, PartialEq)]
pub enum U {
    Plus, Minus, Abs, Signum, FloatExact(u8), FloatAny, FloatPrim(u8), SwapBytes, ToLe, ToBe, Fact, ToInt, ToFloat, Length,
}

pub const PRIMS: [&str; 17] = ["sin", "cos", "tan", "asin", "acos", "atan", "sinh", "cosh", "tanh", "asinh", "acosh", "atanh", "exp", "cbrt", "ln", "log10", "log2"];
fn prim(which: u8, x: f64) -> f64 {
    match which {
        0 => x.sin(),
        1 => x.cos(),
        2 => x.tan(),
        3 => x.asin(),
        4 => x.acos(),
        5 => x.atan(),
        6 => x.sinh(),
        7 => x.cosh(),
        8 => x.tanh(),
        9 => x.asinh(),
        10 => x.acosh(),
        11 => x.atanh(),
        12 => x.exp(),
        13 => x.cbrt(),
        14 => x.ln(),
        15 => x.log10(),
        _ => x.log2(),
    }
}

fn fact_table(n: i32) -> Option<i32> {
    const F: [i32; 13] = [1, 1, 2, 6, 24, 120, 720, 5040, 40320, 362880, 3628800, 39916800, 479001600];
    if n >= 0 && n <= 12 {
        Some(F[n as usize])
    } else {
        None
    }
}

pub fn spec_un(op: U, a: &V) -> Spec {
    if let U::Plus = op {
        return Spec::Exact(dup(a));
    }
    if is_err(a) {
        return Spec::Error;
    }
    match op {
        U::Plus => unreachable!(),
        U::Minus => match a {
            Val::Int(x) => int_or_err(x.checked_neg()),
            Val::Float(x) => Spec::Exact(Val::Float(-*x)),
            Val::Array(v) if v.len() == 1 => Spec::Exact(Val::Array(smallvec![-v[0]])),
            _ => Spec::Error,
        },
        U::Abs => match a {
            Val::Int(x) => int_or_err(x.checked_abs()),
            Val::Float(x) => Spec::Exact(Val::Float(x.abs())),
            _ => Spec::Error,
        },
        U::Signum => match a {
            Val::Int(x) => Spec::Exact(Val::Int(x.signum())),
            Val::Float(x) => Spec::Exact(Val::Float(x.signum())),
            _ => Spec::Error,
        },
        U::FloatExact(which) => match a {
            Val::Float(x) => Spec::Exact(Val::Float(match which {
                0 => x.floor(),
                1 => x.ceil(),
                2 => x.trunc(),
                3 => x.round(),
                4 => x.sqrt(),
                _ => x.fract(),
            })),
            _ => Spec::Error,
        },
        U::FloatAny => match a {
            Val::Float(_) => Spec::AnyFloat,
            _ => Spec::Error,
        },
        // the primitive is replaced by a tagged stub in the harness (Kani has no model of most of libm), so the
        // oracle's call below resolves to the same deterministic, primitive-specific function: the cell proves that
        // the operator applies exactly this primitive to the payload
        U::FloatPrim(which) => match a {
            Val::Float(x) => Spec::Exact(Val::Float(prim(which, *x))),
            _ => Spec::Error,
        },
        U::SwapBytes | U::ToLe | U::ToBe => match a {
            Val::Int(x) => Spec::Exact(Val::Int(match op {
                U::SwapBytes => x.swap_bytes(),
                U::ToLe => x.to_le(),
                _ => x.to_be(),
            })),
            _ => Spec::Error,
        },
        U::Fact => match a {
            Val::Int(x) => int_or_err(fact_table(*x)),
            _ => Spec::Error,
        },
        U::ToInt => match a {
            Val::Int(x) => Spec::Exact(Val::Int(*x)),
            Val::Bool(b) => Spec::Exact(Val::Int(if *b { 1 } else { 0 })),
            Val::Float(x) => {
                // NaN, infinities and out-of-range floats are errors, everything else truncates
                if x.is_finite() && *x > -2147483649.0 && *x < 2147483648.0 {
                    Spec::Exact(Val::Int(*x as i32))
                } else {
                    Spec::Error
                }
            }
            _ => Spec::Error,
        },
        U::ToFloat => match a {
            Val::Int(x) => Spec::Exact(Val::Float(*x as f64)),
            Val::Bool(b) => Spec::Exact(Val::Float(if *b { 1.0 } else { 0.0 })),
            Val::Float(x) => Spec::Exact(Val::Float(*x)),
            _ => Spec::Error,
        },
        U::Length => match a {
            Val::Array(v) if v.len() == 1 => Spec::Exact(Val::Float((0.0 + v[0] * v[0]).sqrt())),
            _ => Spec::Error,
        },
    }
}

fn cell_un(f: fn(V) -> V, op: U, ka: u8) {
    let a = mk(ka);
    let r = f(dup(&a));
    let s = spec_un(op, &a);
    assert!(conforms(&r, &s), "result violates the documented typing/error rule");
    core::mem::forget((a, r, s));
}

/// all six operand kinds (Int, Float, Bool, None, Error, one-element Array), symbolic payloads
pub fn check_un(idx: usize, name: &str, op: U) {
    let ops = ValOpsFactory::<i32, f64>::make();
    assert!(ops[idx].repr() == name);
    let f = ops[idx].unary().unwrap();
    cell_un(f, op, 0);
    cell_un(f, op, 1);
    cell_un(f, op, 2);
    cell_un(f, op, 3);
    cell_un(f, op, 4);
    cell_un(f, op, 5);
    kani::cover!(true, "all 6 cells executed");
    core::mem::forget(ops);
}

// ------------------------------------------------------------------------------------------
// array cells
// ------------------------------------------------------------------------------------------

fn arr(len: usize) -> V {
    match len {
        0 => Val::Array(smallvec![]),
        1 => Val::Array(smallvec![kani::any::<f64>()]),
        2 => Val::Array(smallvec![kani::any::<f64>(), kani::any::<f64>()]),
        3 => Val::Array(smallvec![kani::any::<f64>(), kani::any::<f64>(), kani::any::<f64>()]),
        _ => Val::Array(smallvec![kani::any::<f64>(), kani::any::<f64>(), kani::any::<f64>(), kani::any::<f64>()]),
    }
}

/// element-wise arithmetic of an array with a scalar on either side and with another array
pub fn check_bin_array(idx: usize, name: &str, op: B) {
    let ops = ValOpsFactory::<i32, f64>::make();
    assert!(ops[idx].repr() == name);
    let f = ops[idx].bin().unwrap().apply;
    check_bin_array_direct(f, op);
    core::mem::forget(ops);
}

pub fn check_bin_array_direct(f: fn(V, V) -> V, op: B) {
    let la: usize = kani::any();
    kani::assume(la <= 2);
    let a = arr(la);
    let scalar_kind: u8 = kani::any();
    kani::assume(scalar_kind < 2);
    let s = mk(scalar_kind);
    let sv = match &s {
        Val::Int(x) => *x as f64,
        Val::Float(x) => *x,
        _ => 0.0,
    };
    let e = |x: f64, y: f64| match op {
        B::Add => x + y,
        B::Sub => x - y,
        B::Mul => x * y,
        B::Min => x.min(y),
        _ => x.max(y),
    };
    let Val::Array(av) = &a else { unreachable!() };
    // array (op) scalar
    let r1 = f(dup(&a), dup(&s));
    match &r1 {
        Val::Array(rv) => {
            assert!(rv.len() == la);
            let mut i = 0;
            while i < la {
                assert!(feq(rv[i], e(av[i], sv)));
                i += 1;
            }
        }
        _ => assert!(false, "array with scalar must give an array"),
    }
    // array (op) array of the same length
    let b = arr(la);
    let Val::Array(bv) = &b else { unreachable!() };
    let r2 = f(dup(&a), dup(&b));
    match &r2 {
        Val::Array(rv) => {
            assert!(rv.len() == la);
            let mut i = 0;
            while i < la {
                assert!(feq(rv[i], e(av[i], bv[i])));
                i += 1;
            }
        }
        _ => assert!(false, "array with array must give an array"),
    }
    // errors still propagate
    let r3 = f(dup(&a), Val::Error(ExError::new("e")));
    assert!(is_err(&r3));
    kani::cover!(la == 2 && scalar_kind == 0, "two elements with an Int scalar reached");
    core::mem::forget((a, b, s, r1, r2, r3));
}

/// dot product on arrays of length 0..=3
pub fn check_dot() {
    let ops = ValOpsFactory::<i32, f64>::make();
    assert!(ops[IDX_BIN_DOT].repr() == "dot");
    let dot = ops[IDX_BIN_DOT].bin().unwrap().apply;
    check_dot_direct(dot);
    core::mem::forget(ops);
}

/// dot product on arrays of length 0..=4 each (all 25 length pairs)
pub fn check_dot_direct(dot: fn(V, V) -> V) {
    let la: usize = kani::any();
    let lb: usize = kani::any();
    kani::assume(la <= 4 && lb <= 4);
    let a = arr(la);
    let b = arr(lb);
    let (Val::Array(av), Val::Array(bv)) = (&a, &b) else { unreachable!() };
    let d = dot(dup(&a), dup(&b));
    if la != lb {
        assert!(is_err(&d), "result violates the documented typing/error rule");
    } else {
        let mut acc = 0.0;
        let mut i = 0;
        while i < la {
            acc = acc + av[i] * bv[i];
            i += 1;
        }
        assert!(same(&d, &Val::Float(acc)), "result violates the documented typing/error rule");
    }
    assert!(is_err(&dot(dup(&a), Val::Error(ExError::new("e")))), "error operand must give an error result");
    kani::cover!(la == 2 && lb == 2, "two 2-vectors reached");
    core::mem::forget((a, b, d));
}

/// cross product and component access
pub fn check_cross_comp() {
    let ops = ValOpsFactory::<i32, f64>::make();
    assert!(ops[IDX_BIN_CROSS].repr() == "cross" && ops[IDX_BIN_COMP].repr() == ".");
    let cross = ops[IDX_BIN_CROSS].bin().unwrap().apply;
    let comp = ops[IDX_BIN_COMP].bin().unwrap().apply;
    check_cross_comp_direct(cross, comp);
    core::mem::forget(ops);
}

/// cross product on every pair of lengths 0..=4 (defined for 3 x 3 only), component access on lengths 0..=4 with every index
pub fn check_cross_comp_direct(cross: fn(V, V) -> V, comp: fn(V, V) -> V) {
    let la: usize = kani::any();
    let lb: usize = kani::any();
    kani::assume(la <= 4 && lb <= 4);
    let a = arr(la);
    let b = arr(lb);
    let (Val::Array(av), Val::Array(bv)) = (&a, &b) else { unreachable!() };
    let c = cross(dup(&a), dup(&b));
    if la == 3 && lb == 3 {
        let expect: V = Val::Array(smallvec![av[1] * bv[2] - av[2] * bv[1], av[2] * bv[0] - av[0] * bv[2], av[0] * bv[1] - av[1] * bv[0]]);
        assert!(same(&c, &expect), "result violates the documented typing/error rule");
    } else {
        assert!(is_err(&c), "result violates the documented typing/error rule");
    }
    let i: i32 = kani::any();
    let e = comp(dup(&a), Val::Int(i));
    if i >= 0 && (i as usize) < la {
        assert!(same(&e, &Val::Float(av[i as usize])), "result violates the documented typing/error rule");
    } else {
        assert!(is_err(&e), "result violates the documented typing/error rule");
    }
    assert!(is_err(&comp(dup(&a), Val::Float(kani::any()))), "result violates the documented typing/error rule");
    assert!(is_err(&cross(Val::Error(ExError::new("e")), dup(&b))), "error operand must give an error result");
    kani::cover!(la == 3 && lb == 3, "cross product of two 3-vectors reached");
    kani::cover!(la == 2 && i == 1, "valid component reached");
    core::mem::forget((a, b, c, e));
}

/// cross product over all 9 pairs of CONCRETE lengths 0, 2, 3 (symbolic elements): defined for 3 x 3 only, an error
/// value (never a panic) for every other pair. Concrete lengths keep the SmallVec code out of the solver.
pub fn check_cross_lengths_direct(cross: fn(V, V) -> V) {
    const L: [usize; 3] = [0, 2, 3];
    let mut ia = 0;
    while ia < 3 {
        let mut ib = 0;
        while ib < 3 {
            let (la, lb) = (L[ia], L[ib]);
            let a = arr(la);
            let b = arr(lb);
            let c = cross(dup(&a), dup(&b));
            if la == 3 && lb == 3 {
                let (Val::Array(av), Val::Array(bv)) = (&a, &b) else { unreachable!() };
                let expect: V = Val::Array(smallvec![av[1] * bv[2] - av[2] * bv[1], av[2] * bv[0] - av[0] * bv[2], av[0] * bv[1] - av[1] * bv[0]]);
                assert!(same(&c, &expect), "result violates the documented typing/error rule");
            } else {
                assert!(is_err(&c), "result violates the documented typing/error rule");
            }
            core::mem::forget((a, b, c));
            ib += 1;
        }
        ia += 1;
    }
    kani::cover!(true, "all 9 length pairs executed");
}

/// dot product over all 9 pairs of concrete lengths 0, 2, 3
pub fn check_dot_lengths_direct(dot: fn(V, V) -> V) {
    const L: [usize; 3] = [0, 2, 3];
    let mut ia = 0;
    while ia < 3 {
        let mut ib = 0;
        while ib < 3 {
            let (la, lb) = (L[ia], L[ib]);
            let a = arr(la);
            let b = arr(lb);
            let d = dot(dup(&a), dup(&b));
            if la != lb {
                assert!(is_err(&d), "result violates the documented typing/error rule");
            } else {
                let (Val::Array(av), Val::Array(bv)) = (&a, &b) else { unreachable!() };
                let mut acc = 0.0;
                let mut i = 0;
                while i < la {
                    acc = acc + av[i] * bv[i];
                    i += 1;
                }
                assert!(same(&d, &Val::Float(acc)), "result violates the documented typing/error rule");
            }
            core::mem::forget((a, b, d));
            ib += 1;
        }
        ia += 1;
    }
    kani::cover!(true, "all 9 length pairs executed");
}

/// component access on concrete lengths 0..=4 with every i32 index, a Float index and an error operand
pub fn check_comp_lengths_direct(comp: fn(V, V) -> V) {
    let mut la = 0;
    while la <= 4 {
        let a = arr(la);
        let Val::Array(av) = &a else { unreachable!() };
        let i: i32 = kani::any();
        let e = comp(dup(&a), Val::Int(i));
        if i >= 0 && (i as usize) < la {
            assert!(same(&e, &Val::Float(av[i as usize])), "result violates the documented typing/error rule");
        } else {
            assert!(is_err(&e), "result violates the documented typing/error rule");
        }
        let e2 = comp(dup(&a), Val::Float(kani::any()));
        assert!(is_err(&e2), "result violates the documented typing/error rule");
        core::mem::forget((a, e, e2));
        la += 1;
    }
    kani::cover!(true, "all lengths executed");
}

include!("cells_gen.rs");

// ------------------------------------------------------------------------------------------
// casts in the other documented instantiations (C17: out-of-range floats to integer are errors)
// ------------------------------------------------------------------------------------------

macro_rules! cast_cells {
    ($name:ident, $I:ty, $F:ty, $lo:expr, $hi:expr) => {
        #[kani::proof]
        #[kani::unwind(14)]
        #[kani::stub(alloc::fmt::format, crate::stubs::fmt_stub)]
        fn $name() {
            let ops = ValOpsFactory::<$I, $F>::make();
            // same table layout for every instantiation: look the casts up by name position computed for <i32, f64>
            let (ti, tf) = (IDX_UN_TO_INT, IDX_UN_TO_FLOAT);
            assert!(ops[ti].repr() == "to_int" && ops[tf].repr() == "to_float");
            let to_int = ops[ti].unary().unwrap();
            let to_float = ops[tf].unary().unwrap();
            let x: $F = kani::any();
            let r = to_int(Val::Float(x));
            // exactly the floats whose truncation is representable convert; NaN, infinities and the rest are errors
            if x.is_finite() && x > $lo && x < $hi {
                match &r {
                    Val::Int(n) => assert!(*n == x as $I),
                    _ => assert!(false, "result violates the documented typing/error rule"),
                }
            } else {
                assert!(matches!(r, Val::Error(_)), "result violates the documented typing/error rule");
            }
            let n: $I = kani::any();
            let f = to_float(Val::Int(n));
            assert!(matches!(f, Val::Float(y) if y == n as $F), "result violates the documented typing/error rule");
            kani::cover!(x == $hi, "upper boundary reached");
            core::mem::forget((ops, r, f));
        }
    };
}
cast_cells!(c17_casts_i64_f64, i64, f64, -9223372036854777856.0, 9223372036854775808.0);
cast_cells!(c17_casts_i32_f32, i32, f32, -2147483904.0, 2147483648.0);
cast_cells!(c17_casts_i64_f32, i64, f32, -9223373136366403584.0, 9223372036854775808.0);
