//! Harness-side reference models (plain Rust, also usable natively).

/// distance to the closest unignored number in 0..=idx (bit set = ignored)
pub fn model_previous(bits: &[bool], idx: usize) -> usize {
    let mut d = 0;
    while d <= idx && bits[idx - d] {
        d += 1;
    }
    d
}

/// distance to the next unignored number in (idx+1)..; None when there is none
pub fn model_next(bits: &[bool], idx: usize) -> Option<usize> {
    let mut d = 1;
    while idx + d < bits.len() {
        if !bits[idx + d] {
            return Some(d);
        }
        d += 1;
    }
    None
}
