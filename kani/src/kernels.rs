//! Kernel harnesses: number tracker, eval_binary, unary composition, sign rule, literal recogniser,
//! index check, consuming evaluation.
use crate::model::{model_next, model_previous};
use exmex::verif_hooks::*;
use exmex::{BinOp, Operator};
use smallvec::{smallvec, SmallVec};

// ------------------------------------------------------------------------------------------
// C14: number tracker
// ------------------------------------------------------------------------------------------

fn bits_of_word(w: usize) -> [bool; 64] {
    let mut b = [false; 64];
    let mut i = 0;
    while i < 64 {
        b[i] = (w >> i) & 1 == 1;
        i += 1;
    }
    b
}

/// One step of the single-word tracker from an ARBITRARY state (bit 0 clear: operand 0 is never
/// consumed) agrees with the boolean-vector model, for every index.
#[kani::proof]
#[kani::unwind(66)]
fn c14_word_tracker_step() {
    let state: usize = kani::any();
    kani::assume(state & 1 == 0);
    let idx: usize = kani::any();
    kani::assume(idx < 64);
    let bits = bits_of_word(state);
    assert!(state.get_previous(idx) == model_previous(&bits, idx));
    if let Some(n) = model_next(&bits, idx) {
        assert!(state.get_next(idx) == n);
        let mut s2 = state;
        let c = s2.consume_next(idx);
        assert!(c == n);
        // exactly the consumed position became ignored
        assert!(s2 == state | (1usize << (idx + n)));
        kani::cover!(n > 1 && idx > 3, "non-trivial step reached");
    }
    let mut s3 = state;
    s3.ignore(idx);
    assert!(s3 == state | (1usize << idx));
    assert!(state.max_len() == 64);
}

macro_rules! slice_tracker_step {
    ($name:ident, $w:expr, $unwind:expr) => {
        /// Same for the multi-word tracker (carries across word boundaries).
        #[kani::proof]
        #[kani::unwind($unwind)]
        fn $name() {
            let words: [usize; $w] = kani::any();
            kani::assume(words[0] & 1 == 0);
            let idx: usize = kani::any();
            kani::assume(idx < 64 * $w);
            let mut bits = [false; 64 * $w];
            let mut i = 0;
            while i < 64 * $w {
                bits[i] = (words[i / 64] >> (i % 64)) & 1 == 1;
                i += 1;
            }
            let tr: &[usize] = &words[..];
            assert!(tr.get_previous(idx) == model_previous(&bits, idx));
            if let Some(n) = model_next(&bits, idx) {
                assert!(tr.get_next(idx) == n);
                let mut w2 = words;
                let c = (&mut w2[..]).consume_next(idx);
                assert!(c == n);
                let p = idx + n;
                let mut j = 0;
                while j < $w {
                    let expect = if j == p / 64 { words[j] | (1usize << (p % 64)) } else { words[j] };
                    assert!(w2[j] == expect);
                    j += 1;
                }
                kani::cover!(idx / 64 != (idx + n) / 64, "carry across a word boundary reached");
            }
            assert!(tr.max_len() == 64 * $w);
        }
    };
}
slice_tracker_step!(c14_slice_tracker_step_2w, 2, 130);
slice_tracker_step!(c14_slice_tracker_step_3w, 3, 194);

/// Interval of operand positions; `Default` is the moved-out placeholder.
#[derive(Clone, Copy, PartialEq, Debug)]
pub struct Iv {
    lo: u8,
    hi: u8,
}
impl Default for Iv {
    fn default() -> Self {
        Iv { lo: 255, hi: 255 }
    }
}
pub struct AdjOp;
impl OperateBinary<Iv> for AdjOp {
    fn apply(&self, l: Iv, r: Iv) -> Iv {
        // each operator is applied to the results standing immediately to its left and right
        assert!(l.lo != 255 && r.lo != 255, "moved-out placeholder reached an operator");
        assert!(l.hi + 1 == r.lo, "operands are not adjacent blocks");
        Iv { lo: l.lo, hi: r.hi }
    }
}

macro_rules! eval_binary_all_orders {
    ($name:ident, $n:expr, $slice:expr, $unwind:expr) => {
        /// All application orders of a chain of $n operands as one symbolic permutation.
        #[kani::proof]
        #[kani::unwind($unwind)]
        fn $name() {
            const N: usize = $n;
            let perm: [usize; N - 1] = kani::any();
            let mut i = 0;
            while i < N - 1 {
                kani::assume(perm[i] < N - 1);
                let mut j = 0;
                while j < i {
                    kani::assume(perm[j] != perm[i]);
                    j += 1;
                }
                i += 1;
            }
            let mut numbers = [Iv::default(); N];
            let mut k = 0;
            while k < N {
                numbers[k] = Iv { lo: k as u8, hi: k as u8 };
                k += 1;
            }
            let ops: [AdjOp; N - 1] = core::array::from_fn(|_| AdjOp);
            let res = if $slice {
                let mut tr = [0usize; 1 + N / 64];
                eval_binary(&mut numbers[..], &ops[..], &perm[..], &mut tr[..])
            } else {
                let mut tr = 0usize;
                eval_binary(&mut numbers[..], &ops[..], &perm[..], &mut tr)
            };
            // the final value is the fully reduced chain: every operand consumed exactly once
            assert!(res == Iv { lo: 0, hi: (N - 1) as u8 });
            kani::cover!(perm[0] == N - 2 && perm[N - 2] == 0, "descending order reached");
        }
    };
}
eval_binary_all_orders!(c14_eval_binary_all_orders_7_word, 7, false, 9);
eval_binary_all_orders!(c14_eval_binary_all_orders_7_slice, 7, true, 9);
eval_binary_all_orders!(c14_eval_binary_all_orders_9_word, 9, false, 11);

// ------------------------------------------------------------------------------------------
// C01: unary composition order, sign rule
// ------------------------------------------------------------------------------------------

fn f0(x: u32) -> u32 {
    x * 4 + 1
}
fn f1(x: u32) -> u32 {
    x * 4 + 2
}
fn f2(x: u32) -> u32 {
    x * 4 + 3
}
const FS: [fn(u32) -> u32; 3] = [f0, f1, f2];

/// `UnaryOp::apply` computes funcs[0](funcs[1](...funcs[n-1](x))): the last listed is applied first.
#[kani::proof]
#[kani::unwind(6)]
fn c01_unary_composition_order() {
    let n: usize = kani::any();
    kani::assume(n <= 3);
    let c: [usize; 3] = kani::any();
    kani::assume(c[0] < 3 && c[1] < 3 && c[2] < 3);
    let mut v: SmallVec<[UnaryFuncWithIdx<u32>; 16]> = smallvec![];
    let mut i = 0;
    while i < n {
        v.push(UnaryFuncWithIdx { f: FS[c[i]], idx: c[i] });
        i += 1;
    }
    let uo = UnaryOp::from_vec(v);
    let x: u32 = kani::any();
    kani::assume(x < 1000);
    let mut expect = x;
    let mut j = n;
    while j > 0 {
        j -= 1;
        expect = FS[c[j]](expect);
    }
    assert!(uo.apply(x) == expect);
    kani::cover!(n == 3 && c[0] != c[2], "three distinct functions reached");
    core::mem::forget(uo);
}

fn dummy_bin(a: u8, _b: u8) -> u8 {
    a
}
fn dummy_un(a: u8) -> u8 {
    a
}

/// The unary/binary role of an operator token follows the documented sign rule for every
/// capability combination and every kind of token on its left.
#[kani::proof]
#[kani::unwind(4)]
#[kani::stub(alloc::fmt::format, crate::stubs::fmt_stub)]
fn c13_sign_rule() {
    let cap: u8 = kani::any();
    kani::assume(cap < 3);
    let bo = BinOp { apply: dummy_bin as fn(u8, u8) -> u8, prio: 1, is_commutative: false };
    let op: Operator<u8> = match cap {
        0 => Operator::make_bin("%", bo),
        1 => Operator::make_bin_unary("-", bo, dummy_un),
        _ => Operator::make_unary("sin", dummy_un),
    };
    let left_kind: u8 = kani::any();
    kani::assume(left_kind < 6);
    let other = Operator::make_bin("&", BinOp { apply: dummy_bin as fn(u8, u8) -> u8, prio: 0, is_commutative: true });
    let left: Option<ParsedToken<u8>> = match left_kind {
        0 => None,
        1 => Some(ParsedToken::Num(kani::any())),
        2 => Some(ParsedToken::Var("x")),
        3 => Some(ParsedToken::Paren(Paren::Open)),
        4 => Some(ParsedToken::Paren(Paren::Close)),
        _ => Some(ParsedToken::Op((0, other))),
    };
    let r = is_operator_binary(&op, left.as_ref());
    let operand_on_left = left_kind == 1 || left_kind == 2 || left_kind == 4;
    match cap {
        0 => {
            // binary-only: an error right of another operator, binary otherwise
            if left_kind == 5 {
                assert!(r.is_err());
            } else {
                assert!(r == Ok(true));
            }
        }
        1 => assert!(r == Ok(operand_on_left)), // a sign is unary at the start, after an operator, after `(`
        _ => assert!(r == Ok(false)),
    }
    kani::cover!(cap == 1 && left_kind == 4, "dual operator after closing paren reached");
    core::mem::forget(r);
    core::mem::forget(left);
}

// ------------------------------------------------------------------------------------------
// C13: literal recogniser
// ------------------------------------------------------------------------------------------

/// `is_numeric_text` returns the maximal prefix of digits and dots iff it has at least one digit
/// and at most one dot; never slices off a char boundary (ASCII strings up to 5 bytes).
#[kani::proof]
#[kani::unwind(8)]
fn c13_is_numeric_text() {
    const L: usize = 5;
    let bytes: [u8; L] = kani::any();
    let len: usize = kani::any();
    kani::assume(len <= L);
    let mut i = 0;
    while i < L {
        kani::assume(bytes[i] < 128);
        i += 1;
    }
    let text = unsafe { core::str::from_utf8_unchecked(&bytes[..len]) };
    // reference
    let mut n = 0;
    let mut dots = 0;
    let mut digits = 0;
    while n < len && (bytes[n].is_ascii_digit() || bytes[n] == b'.') {
        if bytes[n] == b'.' {
            dots += 1;
        } else {
            digits += 1;
        }
        n += 1;
    }
    let expect_some = digits >= 1 && dots <= 1;
    match is_numeric_text(text) {
        Some(s) => {
            assert!(expect_some);
            assert!(s.len() == n);
            assert!(s.as_ptr() == text.as_ptr());
        }
        None => assert!(!expect_some),
    }
    kani::cover!(expect_some && dots == 1 && n == 3 && len == 5, "literal with inner dot followed by other text reached");
}

/// appends one character of a symbolically chosen UTF-8 length (1..=4 bytes) to the buffer
fn push_char(buf: &mut [u8; 16], len: &mut usize, kind: u8, ascii: u8) -> usize {
    match kind {
        0 => {
            buf[*len] = ascii; // any ASCII byte
            *len += 1;
            1
        }
        1 => {
            buf[*len] = 0xCE; // α
            buf[*len + 1] = 0xB1;
            *len += 2;
            2
        }
        2 => {
            buf[*len] = 0xE2; // €
            buf[*len + 1] = 0x82;
            buf[*len + 2] = 0xAC;
            *len += 3;
            3
        }
        _ => {
            buf[*len] = 0xF0; // U+1F600
            buf[*len + 1] = 0x9F;
            buf[*len + 2] = 0x98;
            buf[*len + 3] = 0x80;
            *len += 4;
            4
        }
    }
}

/// C06/C13: the look-ahead helper of the tokenizer returns the length of the character that follows an operator
/// name, for characters of every UTF-8 length, and never panics (precondition of its only call site: the name ends
/// before the end of the text, on a character boundary).
#[kani::proof]
#[kani::unwind(20)]
fn c06_next_char_boundary() {
    let mut buf = [0u8; 16];
    let mut len = 0usize;
    // operator name: 1..=3 ASCII bytes
    let name_len: usize = kani::any();
    kani::assume(name_len >= 1 && name_len <= 3);
    let mut i = 0;
    while i < name_len {
        buf[len] = b'a' + i as u8;
        len += 1;
        i += 1;
    }
    // the character behind the name, then up to two more characters
    let k1: u8 = kani::any();
    let a1: u8 = kani::any();
    kani::assume(k1 < 4 && a1 < 128);
    let first_len = push_char(&mut buf, &mut len, k1, a1);
    let more: u8 = kani::any();
    kani::assume(more <= 2);
    let mut j = 0;
    while j < more {
        let k: u8 = kani::any();
        let a: u8 = kani::any();
        kani::assume(k < 4 && a < 128);
        push_char(&mut buf, &mut len, k, a);
        j += 1;
    }
    let text = unsafe { core::str::from_utf8_unchecked(&buf[..len]) };
    let d = next_char_boundary(text, name_len);
    assert!(d == first_len);
    assert!(text.is_char_boundary(name_len + d));
    kani::cover!(k1 == 3 && more == 0, "4-byte character at the end of the text reached");
}

/// C13: `is_numeric_text` on texts with multi-byte characters: the literal is the maximal prefix of digits and
/// dots (at least one digit, at most one dot) and the returned slice ends on a character boundary.
#[kani::proof]
#[kani::unwind(20)]
fn c13_is_numeric_text_utf8() {
    let mut buf = [0u8; 16];
    let mut len = 0usize;
    let mut n = 0usize; // length of the digit/dot prefix
    let mut dots = 0;
    let mut digits = 0;
    let mut in_prefix = true;
    let count: u8 = kani::any();
    kani::assume(count <= 4);
    let mut j = 0;
    while j < count {
        let k: u8 = kani::any();
        let a: u8 = kani::any();
        kani::assume(k < 4 && a < 128);
        push_char(&mut buf, &mut len, k, a);
        if in_prefix && k == 0 && (a.is_ascii_digit() || a == b'.') {
            n += 1;
            if a == b'.' {
                dots += 1;
            } else {
                digits += 1;
            }
        } else {
            in_prefix = false;
        }
        j += 1;
    }
    let text = unsafe { core::str::from_utf8_unchecked(&buf[..len]) };
    let expect_some = digits >= 1 && dots <= 1;
    match is_numeric_text(text) {
        Some(s) => {
            assert!(expect_some);
            assert!(s.len() == n);
            assert!(text.is_char_boundary(s.len()));
        }
        None => assert!(!expect_some),
    }
    kani::cover!(expect_some && n == 2 && count == 3, "literal followed by a multi-byte character reached");
}

// ------------------------------------------------------------------------------------------
// C09: index validation
// ------------------------------------------------------------------------------------------

#[kani::proof]
#[kani::stub(alloc::fmt::format, crate::stubs::fmt_stub)]
fn c09_check_partial_index() {
    let i: usize = kani::any();
    let n: usize = kani::any();
    let r = check_partial_index(i, n, "x");
    assert!(r.is_err() == (i >= n));
    kani::cover!(n > 0 && i == n - 1, "largest valid index reached");
    core::mem::forget(r);
}

// ------------------------------------------------------------------------------------------
// C15: consuming vs borrowing evaluation of the flat kernel
// ------------------------------------------------------------------------------------------

/// Values are u16 below 0x7fff; `Default` is the moved-out placeholder 0xffff.
#[derive(Clone, Debug, PartialEq)]
pub struct Cv(u16);
impl Default for Cv {
    fn default() -> Self {
        Cv(0xffff)
    }
}
fn cv_op(a: Cv, b: Cv) -> Cv {
    assert!(a.0 != 0xffff && b.0 != 0xffff, "moved-out placeholder reached an operator");
    // order-sensitive combination
    Cv((a.0.wrapping_mul(31)).wrapping_add(b.0).wrapping_add(7) & 0x7fff)
}

macro_rules! consuming_vs_cloning {
    ($name:ident, $n:expr, $unwind:expr) => {
        /// `eval_flatex_consuming_vars` agrees with `eval_flatex_cloning` for every literal/variable pattern of
        /// $n nodes (variable indices < 3, arbitrary repetitions) and the placeholder never reaches an operator.
        #[kani::proof]
        #[kani::unwind($unwind)]
        #[kani::stub(alloc::fmt::format, crate::stubs::fmt_stub)]
        fn $name() {
            const N: usize = $n;
            let kinds: [u8; N] = kani::any();
            let mut nodes: SmallVec<[FlatNode<Cv>; 32]> = smallvec![];
            let mut i = 0;
            while i < N {
                kani::assume(kinds[i] < 4);
                let kind = if kinds[i] == 3 { FlatNodeKind::Num(Cv(100 + i as u16)) } else { FlatNodeKind::Var(kinds[i] as usize) };
                nodes.push(FlatNode { kind, unary_op: UnaryOp::new() });
                i += 1;
            }
            let mut ops: SmallVec<[FlatOp<Cv>; 32]> = smallvec![];
            let mut k = 0;
            while k < N - 1 {
                ops.push(FlatOp { unary_op: UnaryOp::new(), bin_op: BinOpWithIdx { op: BinOp { apply: cv_op as fn(Cv, Cv) -> Cv, prio: 0, is_commutative: false }, idx: 0 } });
                k += 1;
            }
            let perm: [usize; N - 1] = core::array::from_fn(|i| i);
            let v: [u16; 3] = kani::any();
            kani::assume(v[0] < 0x7fff && v[1] < 0x7fff && v[2] < 0x7fff);
            let vars = [Cv(v[0]), Cv(v[1]), Cv(v[2])];
            let borrowed = eval_flatex_cloning(&vars, &nodes, &ops, &perm);
            let mut owned = [Cv(v[0]), Cv(v[1]), Cv(v[2])];
            let consumed = eval_flatex_consuming_vars(&mut owned, &nodes, &ops, &perm);
            match (&borrowed, &consumed) {
                (Ok(x), Ok(y)) => assert!(x.0 == y.0),
                _ => assert!(false),
            }
            kani::cover!(kinds[0] == kinds[N - 1] && kinds[0] < 3, "a repeated variable reached");
            core::mem::forget(borrowed);
            core::mem::forget(consumed);
            core::mem::forget(nodes);
            core::mem::forget(ops);
        }
    };
}
consuming_vs_cloning!(c15_consuming_vs_cloning_2, 2, 5);
consuming_vs_cloning!(c15_consuming_vs_cloning_3, 3, 6);

/// C18: the constants the derivative rules create enter the value type through `From<f32>` (a Float) and
/// `From<u8>` (an Int), for every f32 / u8, in the documented instantiation and in `<i64, f32>`
#[kani::proof]
#[kani::stub(alloc::fmt::format, crate::stubs::fmt_stub)]
fn c18_val_from_consts() {
    use exmex::Val;
    let v: f32 = kani::any();
    let u: u8 = kani::any();
    let a: Val<i32, f64> = Val::from(v);
    match &a {
        Val::Float(x) => assert!(x.to_bits() == (v as f64).to_bits() || (x.is_nan() && v.is_nan()), "From<f32> must give the same number as a Float"),
        _ => assert!(false, "From<f32> must give a Float"),
    }
    let b: Val<i32, f64> = Val::from(u);
    assert!(matches!(&b, Val::Int(n) if *n == u as i32), "From<u8> must give the same number as an Int");
    let c: Val<i64, f32> = Val::from(v);
    match &c {
        Val::Float(x) => assert!(x.to_bits() == v.to_bits() || (x.is_nan() && v.is_nan()), "From<f32> must give the same number as a Float"),
        _ => assert!(false, "From<f32> must give a Float"),
    }
    let d: Val<i64, f32> = Val::from(u);
    assert!(matches!(&d, Val::Int(n) if *n == u as i64), "From<u8> must give the same number as an Int");
    kani::cover!(u == 2 && v == 2.0, "the constants of the power and sqrt rules reached");
    core::mem::forget((a, b, c, d));
}
