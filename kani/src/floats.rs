//! C19 on the monomorphised code: every default float operator passes its arguments, in order and
//! unchanged, to the Rust primitive of its name and returns its result unchanged.
//! Exactly modelled primitives are compared bit for bit; transcendental primitives are replaced by
//! tagged stubs (a distinct, argument-order-sensitive function per primitive), which also proves the
//! forwarding of `num::Float` that engine M trusts.
use exmex::{FloatOpsFactory, MakeOperators, Operator};

include!("floats_idx.rs");

fn feq64(a: f64, b: f64) -> bool {
    a.to_bits() == b.to_bits() || (a.is_nan() && b.is_nan())
}
fn feq32(a: f32, b: f32) -> bool {
    a.to_bits() == b.to_bits() || (a.is_nan() && b.is_nan())
}

macro_rules! tags {
    ($t:ty, $bits:ty, $($name:ident = $k:expr),*) => {
        $( pub fn $name(a: $t) -> $t { <$t>::from_bits(a.to_bits() ^ ($k as $bits)).abs() + ($k as $t) } )*
    };
}
pub mod t64 {
    tags!(f64, u64, sin = 3, cos = 5, tan = 7, asin = 11, acos = 13, atan = 17, sinh = 19, cosh = 23, tanh = 29, asinh = 31, acosh = 37, atanh = 41, exp = 43, ln = 47, log2 = 53, log10 = 59, cbrt = 61, sqrt = 67);
    pub fn powf(a: f64, b: f64) -> f64 {
        f64::from_bits(a.to_bits().rotate_left(7) ^ b.to_bits())
    }
    pub fn atan2(a: f64, b: f64) -> f64 {
        f64::from_bits(a.to_bits().rotate_left(13) ^ b.to_bits() ^ 0x55)
    }
}
pub mod t32 {
    tags!(f32, u32, sin = 3, cos = 5, tan = 7, asin = 11, acos = 13, atan = 17, sinh = 19, cosh = 23, tanh = 29, asinh = 31, acosh = 37, atanh = 41, exp = 43, ln = 47, log2 = 53, log10 = 59, cbrt = 61, sqrt = 67);
    pub fn powf(a: f32, b: f32) -> f32 {
        f32::from_bits(a.to_bits().rotate_left(7) ^ b.to_bits())
    }
    pub fn atan2(a: f32, b: f32) -> f32 {
        f32::from_bits(a.to_bits().rotate_left(13) ^ b.to_bits() ^ 0x55)
    }
}

fn un64(ops: &[Operator<'static, f64>], idx: usize, name: &str) -> fn(f64) -> f64 {
    assert!(ops[idx].repr() == name);
    ops[idx].unary().unwrap()
}
fn bin64(ops: &[Operator<'static, f64>], idx: usize, name: &str) -> fn(f64, f64) -> f64 {
    assert!(ops[idx].repr() == name);
    ops[idx].bin().unwrap().apply
}
fn un32(ops: &[Operator<'static, f32>], idx: usize, name: &str) -> fn(f32) -> f32 {
    assert!(ops[idx].repr() == name);
    ops[idx].unary().unwrap()
}
fn bin32(ops: &[Operator<'static, f32>], idx: usize, name: &str) -> fn(f32, f32) -> f32 {
    assert!(ops[idx].repr() == name);
    ops[idx].bin().unwrap().apply
}

/// sign-like unary primitives, f64
#[kani::proof]
#[kani::unwind(10)]
#[kani::stub(alloc::fmt::format, crate::stubs::fmt_stub)]
fn c19_f64_signs() {
    let ops = FloatOpsFactory::<f64>::make();
    let a: f64 = kani::any();
    assert!(feq64(un64(&ops, FIDX_PLUS, "+")(a), a));
    assert!(feq64(un64(&ops, FIDX_MINUS, "-")(a), -a));
    assert!(feq64(un64(&ops, FIDX_ABS, "abs")(a), a.abs()));
    assert!(feq64(un64(&ops, FIDX_SIGNUM, "signum")(a), a.signum()));
    kani::cover!(a < -1.5 && a > -2.5, "negative non-integer operand reached");
    core::mem::forget(ops);
}

/// rounding family, f64 (slow: CBMC's float rounding models)
#[kani::proof]
#[kani::unwind(10)]
#[kani::stub(alloc::fmt::format, crate::stubs::fmt_stub)]
fn c19_f64_rounding_slow() {
    let ops = FloatOpsFactory::<f64>::make();
    let a: f64 = kani::any();
    assert!(feq64(un64(&ops, FIDX_FLOOR, "floor")(a), a.floor()));
    assert!(feq64(un64(&ops, FIDX_CEIL, "ceil")(a), a.ceil()));
    assert!(feq64(un64(&ops, FIDX_ROUND, "round")(a), a.round()));
    assert!(feq64(un64(&ops, FIDX_TRUNC, "trunc")(a), a.trunc()));
    kani::cover!(a < -1.5 && a > -2.5, "negative non-integer operand reached");
    core::mem::forget(ops);
}

/// min / max with the documented argument order, and the constants, f64
#[kani::proof]
#[kani::unwind(10)]
#[kani::stub(alloc::fmt::format, crate::stubs::fmt_stub)]
fn c19_f64_minmax_consts() {
    let ops = FloatOpsFactory::<f64>::make();
    let a: f64 = kani::any();
    let b: f64 = kani::any();
    let mn = bin64(&ops, FIDX_MIN, "min")(a, b);
    let mx = bin64(&ops, FIDX_MAX, "max")(a, b);
    // Rust leaves the sign of zero of min(0.0, -0.0) open: compare as numbers when both are zero
    assert!(feq64(mn, a.min(b)) || (mn == 0.0 && a.min(b) == 0.0));
    assert!(feq64(mx, a.max(b)) || (mx == 0.0 && a.max(b) == 0.0));
    assert!(ops[FIDX_K_PI].repr() == "PI" && ops[FIDX_K_PI].constant() == Some(std::f64::consts::PI));
    assert!(ops[FIDX_K_E].repr() == "E" && ops[FIDX_K_E].constant() == Some(std::f64::consts::E));
    assert!(ops[FIDX_K_TAU].repr() == "TAU" && ops[FIDX_K_TAU].constant() == Some(std::f64::consts::TAU));
    kani::cover!(a.is_nan() && b == 1.0, "NaN operand reached");
    core::mem::forget(ops);
}

/// tagged stubs, f64, group a: sin, ln, log and the two-argument primitives powf, atan2 (argument order)
#[kani::proof]
#[kani::unwind(10)]
#[kani::stub(alloc::fmt::format, crate::stubs::fmt_stub)]
#[kani::stub(f64::sin, t64::sin)]
#[kani::stub(f64::ln, t64::ln)]
#[kani::stub(f64::powf, t64::powf)]
#[kani::stub(f64::atan2, t64::atan2)]
fn c19_f64_tagged_a() {
    let ops = FloatOpsFactory::<f64>::make();
    let a: f64 = kani::any();
    let b: f64 = kani::any();
    assert!(feq64(un64(&ops, FIDX_SIN, "sin")(a), t64::sin(a)));
    assert!(feq64(un64(&ops, FIDX_LN, "ln")(a), t64::ln(a)));
    assert!(feq64(un64(&ops, FIDX_LOG, "log")(a), t64::ln(a)));
    assert!(feq64(bin64(&ops, FIDX_POW, "^")(a, b), t64::powf(a, b)));
    assert!(feq64(bin64(&ops, FIDX_ATAN2, "atan2")(a, b), t64::atan2(a, b)));
    kani::cover!(a != b && !a.is_nan() && !b.is_nan(), "two different operands reached");
    core::mem::forget(ops);
}

/// tagged stubs, f64, group b: cos, tan, asin, acos, atan
#[kani::proof]
#[kani::unwind(10)]
#[kani::stub(alloc::fmt::format, crate::stubs::fmt_stub)]
#[kani::stub(f64::cos, t64::cos)]
#[kani::stub(f64::tan, t64::tan)]
#[kani::stub(f64::asin, t64::asin)]
#[kani::stub(f64::acos, t64::acos)]
#[kani::stub(f64::atan, t64::atan)]
fn c19_f64_tagged_b_slow() {
    let ops = FloatOpsFactory::<f64>::make();
    let a: f64 = kani::any();
    let b: f64 = kani::any();
    assert!(feq64(un64(&ops, FIDX_COS, "cos")(a), t64::cos(a)));
    assert!(feq64(un64(&ops, FIDX_TAN, "tan")(a), t64::tan(a)));
    assert!(feq64(un64(&ops, FIDX_ASIN, "asin")(a), t64::asin(a)));
    assert!(feq64(un64(&ops, FIDX_ACOS, "acos")(a), t64::acos(a)));
    assert!(feq64(un64(&ops, FIDX_ATAN, "atan")(a), t64::atan(a)));
    kani::cover!(a != b && !a.is_nan() && !b.is_nan(), "two different operands reached");
    core::mem::forget(ops);
}

/// tagged stubs, f64, group c: sinh, cosh, tanh, asinh, acosh, atanh
#[kani::proof]
#[kani::unwind(10)]
#[kani::stub(alloc::fmt::format, crate::stubs::fmt_stub)]
#[kani::stub(f64::sinh, t64::sinh)]
#[kani::stub(f64::cosh, t64::cosh)]
#[kani::stub(f64::tanh, t64::tanh)]
#[kani::stub(f64::asinh, t64::asinh)]
#[kani::stub(f64::acosh, t64::acosh)]
#[kani::stub(f64::atanh, t64::atanh)]
fn c19_f64_tagged_c_slow() {
    let ops = FloatOpsFactory::<f64>::make();
    let a: f64 = kani::any();
    let b: f64 = kani::any();
    assert!(feq64(un64(&ops, FIDX_SINH, "sinh")(a), t64::sinh(a)));
    assert!(feq64(un64(&ops, FIDX_COSH, "cosh")(a), t64::cosh(a)));
    assert!(feq64(un64(&ops, FIDX_TANH, "tanh")(a), t64::tanh(a)));
    assert!(feq64(un64(&ops, FIDX_ASINH, "asinh")(a), t64::asinh(a)));
    assert!(feq64(un64(&ops, FIDX_ACOSH, "acosh")(a), t64::acosh(a)));
    assert!(feq64(un64(&ops, FIDX_ATANH, "atanh")(a), t64::atanh(a)));
    kani::cover!(a != b && !a.is_nan() && !b.is_nan(), "two different operands reached");
    core::mem::forget(ops);
}

/// tagged stubs, f64, group d: exp, log2, log10, cbrt, sqrt
#[kani::proof]
#[kani::unwind(10)]
#[kani::stub(alloc::fmt::format, crate::stubs::fmt_stub)]
#[kani::stub(f64::exp, t64::exp)]
#[kani::stub(f64::log2, t64::log2)]
#[kani::stub(f64::log10, t64::log10)]
#[kani::stub(f64::cbrt, t64::cbrt)]
#[kani::stub(f64::sqrt, t64::sqrt)]
fn c19_f64_tagged_d_slow() {
    let ops = FloatOpsFactory::<f64>::make();
    let a: f64 = kani::any();
    let b: f64 = kani::any();
    assert!(feq64(un64(&ops, FIDX_EXP, "exp")(a), t64::exp(a)));
    assert!(feq64(un64(&ops, FIDX_LOG2, "log2")(a), t64::log2(a)));
    assert!(feq64(un64(&ops, FIDX_LOG10, "log10")(a), t64::log10(a)));
    assert!(feq64(un64(&ops, FIDX_CBRT, "cbrt")(a), t64::cbrt(a)));
    // CBMC's sqrt model is not exact on subnormal operands (a counterexample at 1.86e-318 did not reproduce natively), so sqrt is checked like the transcendental functions
    assert!(feq64(un64(&ops, FIDX_SQRT, "sqrt")(a), t64::sqrt(a)));
    kani::cover!(a != b && !a.is_nan() && !b.is_nan(), "two different operands reached");
    core::mem::forget(ops);
}

/// + - * bit-exact, f64 (slow: bit-blasted IEEE arithmetic)
#[kani::proof]
#[kani::unwind(10)]
#[kani::stub(alloc::fmt::format, crate::stubs::fmt_stub)]
fn c19_f64_arith_slow() {
    let ops = FloatOpsFactory::<f64>::make();
    let a: f64 = kani::any();
    let b: f64 = kani::any();
    assert!(feq64(bin64(&ops, FIDX_PLUS, "+")(a, b), a + b));
    assert!(feq64(bin64(&ops, FIDX_MINUS, "-")(a, b), a - b));
    assert!(feq64(bin64(&ops, FIDX_MUL, "*")(a, b), a * b));
    kani::cover!(a > 1.0 && b < -1.0, "operands of both signs reached");
    core::mem::forget(ops);
}

#[kani::proof]
#[kani::unwind(10)]
#[kani::stub(alloc::fmt::format, crate::stubs::fmt_stub)]
fn c19_f32_signs() {
    let ops = FloatOpsFactory::<f32>::make();
    let a: f32 = kani::any();
    assert!(feq32(un32(&ops, FIDX_PLUS, "+")(a), a));
    assert!(feq32(un32(&ops, FIDX_MINUS, "-")(a), -a));
    assert!(feq32(un32(&ops, FIDX_ABS, "abs")(a), a.abs()));
    assert!(feq32(un32(&ops, FIDX_SIGNUM, "signum")(a), a.signum()));
    kani::cover!(a < -1.5 && a > -2.5, "negative non-integer operand reached");
    core::mem::forget(ops);
}

#[kani::proof]
#[kani::unwind(10)]
#[kani::stub(alloc::fmt::format, crate::stubs::fmt_stub)]
fn c19_f32_rounding_slow() {
    let ops = FloatOpsFactory::<f32>::make();
    let a: f32 = kani::any();
    assert!(feq32(un32(&ops, FIDX_FLOOR, "floor")(a), a.floor()));
    assert!(feq32(un32(&ops, FIDX_CEIL, "ceil")(a), a.ceil()));
    assert!(feq32(un32(&ops, FIDX_ROUND, "round")(a), a.round()));
    assert!(feq32(un32(&ops, FIDX_TRUNC, "trunc")(a), a.trunc()));
    kani::cover!(a < -1.5 && a > -2.5, "negative non-integer operand reached");
    core::mem::forget(ops);
}

/// tagged stubs, f32, group a: sin, ln, log and the two-argument primitives powf, atan2 (argument order)
#[kani::proof]
#[kani::unwind(10)]
#[kani::stub(alloc::fmt::format, crate::stubs::fmt_stub)]
#[kani::stub(f32::sin, t32::sin)]
#[kani::stub(f32::ln, t32::ln)]
#[kani::stub(f32::powf, t32::powf)]
#[kani::stub(f32::atan2, t32::atan2)]
fn c19_f32_tagged_a() {
    let ops = FloatOpsFactory::<f32>::make();
    let a: f32 = kani::any();
    let b: f32 = kani::any();
    assert!(feq32(un32(&ops, FIDX_SIN, "sin")(a), t32::sin(a)));
    assert!(feq32(un32(&ops, FIDX_LN, "ln")(a), t32::ln(a)));
    assert!(feq32(un32(&ops, FIDX_LOG, "log")(a), t32::ln(a)));
    assert!(feq32(bin32(&ops, FIDX_POW, "^")(a, b), t32::powf(a, b)));
    assert!(feq32(bin32(&ops, FIDX_ATAN2, "atan2")(a, b), t32::atan2(a, b)));
    kani::cover!(a != b && !a.is_nan() && !b.is_nan(), "two different operands reached");
    core::mem::forget(ops);
}

/// tagged stubs, f32, group b: cos, tan, asin, acos, atan
#[kani::proof]
#[kani::unwind(10)]
#[kani::stub(alloc::fmt::format, crate::stubs::fmt_stub)]
#[kani::stub(f32::cos, t32::cos)]
#[kani::stub(f32::tan, t32::tan)]
#[kani::stub(f32::asin, t32::asin)]
#[kani::stub(f32::acos, t32::acos)]
#[kani::stub(f32::atan, t32::atan)]
fn c19_f32_tagged_b_slow() {
    let ops = FloatOpsFactory::<f32>::make();
    let a: f32 = kani::any();
    let b: f32 = kani::any();
    assert!(feq32(un32(&ops, FIDX_COS, "cos")(a), t32::cos(a)));
    assert!(feq32(un32(&ops, FIDX_TAN, "tan")(a), t32::tan(a)));
    assert!(feq32(un32(&ops, FIDX_ASIN, "asin")(a), t32::asin(a)));
    assert!(feq32(un32(&ops, FIDX_ACOS, "acos")(a), t32::acos(a)));
    assert!(feq32(un32(&ops, FIDX_ATAN, "atan")(a), t32::atan(a)));
    kani::cover!(a != b && !a.is_nan() && !b.is_nan(), "two different operands reached");
    core::mem::forget(ops);
}

/// tagged stubs, f32, group c: sinh, cosh, tanh, asinh, acosh, atanh
#[kani::proof]
#[kani::unwind(10)]
#[kani::stub(alloc::fmt::format, crate::stubs::fmt_stub)]
#[kani::stub(f32::sinh, t32::sinh)]
#[kani::stub(f32::cosh, t32::cosh)]
#[kani::stub(f32::tanh, t32::tanh)]
#[kani::stub(f32::asinh, t32::asinh)]
#[kani::stub(f32::acosh, t32::acosh)]
#[kani::stub(f32::atanh, t32::atanh)]
fn c19_f32_tagged_c_slow() {
    let ops = FloatOpsFactory::<f32>::make();
    let a: f32 = kani::any();
    let b: f32 = kani::any();
    assert!(feq32(un32(&ops, FIDX_SINH, "sinh")(a), t32::sinh(a)));
    assert!(feq32(un32(&ops, FIDX_COSH, "cosh")(a), t32::cosh(a)));
    assert!(feq32(un32(&ops, FIDX_TANH, "tanh")(a), t32::tanh(a)));
    assert!(feq32(un32(&ops, FIDX_ASINH, "asinh")(a), t32::asinh(a)));
    assert!(feq32(un32(&ops, FIDX_ACOSH, "acosh")(a), t32::acosh(a)));
    assert!(feq32(un32(&ops, FIDX_ATANH, "atanh")(a), t32::atanh(a)));
    kani::cover!(a != b && !a.is_nan() && !b.is_nan(), "two different operands reached");
    core::mem::forget(ops);
}

/// tagged stubs, f32, group d: exp, log2, log10, cbrt, sqrt
#[kani::proof]
#[kani::unwind(10)]
#[kani::stub(alloc::fmt::format, crate::stubs::fmt_stub)]
#[kani::stub(f32::exp, t32::exp)]
#[kani::stub(f32::log2, t32::log2)]
#[kani::stub(f32::log10, t32::log10)]
#[kani::stub(f32::cbrt, t32::cbrt)]
#[kani::stub(f32::sqrt, t32::sqrt)]
fn c19_f32_tagged_d_slow() {
    let ops = FloatOpsFactory::<f32>::make();
    let a: f32 = kani::any();
    let b: f32 = kani::any();
    assert!(feq32(un32(&ops, FIDX_EXP, "exp")(a), t32::exp(a)));
    assert!(feq32(un32(&ops, FIDX_LOG2, "log2")(a), t32::log2(a)));
    assert!(feq32(un32(&ops, FIDX_LOG10, "log10")(a), t32::log10(a)));
    assert!(feq32(un32(&ops, FIDX_CBRT, "cbrt")(a), t32::cbrt(a)));
    // CBMC's sqrt model is not exact on subnormal operands (a counterexample at 1.86e-318 did not reproduce natively), so sqrt is checked like the transcendental functions
    assert!(feq32(un32(&ops, FIDX_SQRT, "sqrt")(a), t32::sqrt(a)));
    kani::cover!(a != b && !a.is_nan() && !b.is_nan(), "two different operands reached");
    core::mem::forget(ops);
}

#[kani::proof]
#[kani::unwind(10)]
#[kani::stub(alloc::fmt::format, crate::stubs::fmt_stub)]
fn c19_f32_arith_slow() {
    let ops = FloatOpsFactory::<f32>::make();
    let a: f32 = kani::any();
    let b: f32 = kani::any();
    assert!(feq32(bin32(&ops, FIDX_PLUS, "+")(a, b), a + b));
    assert!(feq32(bin32(&ops, FIDX_MINUS, "-")(a, b), a - b));
    assert!(feq32(bin32(&ops, FIDX_MUL, "*")(a, b), a * b));
    kani::cover!(a > 1.0 && b < -1.0, "operands of both signs reached");
    core::mem::forget(ops);
}
